#!/usr/bin/env python3
"""tools/mut.py PROP[,PROP] FILE 'OLD' 'NEW' [--replay] [--only X] [--timeout N]
Apply a one-off textual mutation to a scratch COPY of /repo (never /repo itself), run the given checks
against the copy (VERIF_REPO), report exit codes, delete the copy. Evidence files are not written."""
import os, shutil, subprocess, sys, tempfile
args = sys.argv[1:]
props, f, old, new = args[0].split(","), args[1], args[2], args[3]
rest = args[4:]
replay = "--replay" in rest
rest = [r for r in rest if r != "--replay"]
d = tempfile.mkdtemp(prefix="mut-", dir="/var/tmp")
try:
    subprocess.check_call(["rsync", "-a", "--exclude", "/target", "--exclude", "/.git", "/repo/", d + "/"])
    p = os.path.join(d, f)
    s = open(p).read()
    if old not in s:
        print("MUT: pattern not found"); sys.exit(3)
    open(p, "w").write(s.replace(old, new, 1))
    env = dict(os.environ, VERIF_REPO=d, VERIF_NO_EVIDENCE="1")
    for pr in props:
        cmd = [os.path.join(os.path.dirname(os.path.dirname(os.path.abspath(__file__))), "check"), pr] + rest + ([] if replay else ["--no-replay"])
        r = subprocess.run(cmd, env=env, capture_output=True, text=True)
        lines = [l for l in r.stdout.split("\n") if l.startswith(("VIOLATION", "INCONCLUSIVE", "KNOWN")) or "] tier=" in l]
        print(f"MUT {pr} {f}: {old[:50]!r} -> {new[:50]!r}: exit={r.returncode}")
        for l in lines[:8]:
            print("   ", l[:220])
finally:
    shutil.rmtree(d, ignore_errors=True)
