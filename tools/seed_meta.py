#!/usr/bin/env python3
"""Generate seeded/<id>/meta.json and seeded/README.md from the confirmation and evaluation logs
(/var/tmp/confirm_all.log, /var/tmp/confirm_C05.log, /var/tmp/seed_eval.log)."""
import json, os, re, glob
HERE = os.path.dirname(os.path.dirname(os.path.abspath(__file__)))
conf = {}
for f in ("/var/tmp/confirm_merged.log", "/var/tmp/confirm_C05.log"):
    if os.path.exists(f):
        for l in open(f):
            m = re.match(r"CONFIRM (\S+) (step\d) ([^:]+): (.*)", l)
            if m:
                txt = re.sub(r"\x1b\[[0-9;]*m", "", m.group(4))
                r = re.findall(r"test result: \w+\. \d+ passed; \d+ failed", txt)
                conf.setdefault(m.group(1), {})[m.group(2) + " " + m.group(3)] = r[0] if r else txt[:120]
ev = {}
cur = None
for l in open("/var/tmp/seed_eval_all.log"):
    m = re.match(r"SEED (\S+)/patch.diff vs (\S+): exit=(\d+)", l)
    if m:
        cur = m.group(1)
        ev.setdefault(cur, []).append({"property": m.group(2), "exit": int(m.group(3)), "lines": []})
    elif cur and l.startswith("    ") and ev[cur]:
        ev[cur][-1]["lines"].append(l.strip()[:260])
needs = {}
rows = []
for d in sorted(glob.glob(os.path.join(HERE, "seeded", "*"))):
    if not os.path.isdir(d):
        continue
    sid = os.path.basename(d)
    notes = open(os.path.join(d, "notes.md")).read() if os.path.exists(os.path.join(d, "notes.md")) else ""
    patch = open(os.path.join(d, "patch.diff")).read()
    files = sorted(set(re.findall(r"^\+\+\+ b/(\S+)", patch, re.M)))
    prop = re.match(r"(C\d+)", sid).group(1)
    checks = ev.get(sid, [])
    caught_by = sorted(set(re.search(r"harness (\S+)", l).group(1) for c in checks for l in c["lines"] if l.startswith("VIOLATION")))
    status = "caught" if any(c["exit"] == 1 for c in checks) else ("inconclusive" if any(c["exit"] == 2 for c in checks) else ("missed" if checks else "not evaluated"))
    extra = {}
    ep = os.path.join(d, "extra.json")
    if os.path.exists(ep):
        extra = json.load(open(ep))
    meta = {"id": sid, "breaks_property": prop, "files_changed": files,
            "origin": "written by a fresh sub-agent that was given only the property text and a scratch git worktree of /repo (nothing from /verif)",
            "needs_to_manifest": extra.get("needs", "see notes.md (section on what is needed for the bug to manifest)"),
            "confirmed_by_me": conf.get(sid, {}),
            "confirmation_cmd": f"tools/seed_confirm.sh {sid} seeded/{sid}/patch.diff seeded/{sid}/demo.diff  (fresh worktree of /repo HEAD: demo alone passes; patch alone: 76/76 existing tests pass; patch+demo: demo fails)",
            "checks_run": [{"cmd": f"tools/seed_eval.py seeded/{sid}/patch.diff {c['property']}", "exit": c["exit"], "output": c["lines"]} for c in checks],
            "status": extra.get("status", status), "caught_by": caught_by, "comment": extra.get("comment", "")}
    json.dump(meta, open(os.path.join(d, "meta.json"), "w"), indent=1)
    rows.append((sid, prop, ", ".join(files), meta["status"], ", ".join(caught_by), meta["comment"]))
with open(os.path.join(HERE, "seeded", "README.md"), "w") as f:
    f.write("# Independently written breaking changes\n\nEach directory: `patch.diff` (the change), `demo.diff` (native demonstration test), `notes.md` (the author's notes), "
            "`meta.json` (what I ran and what happened). None of these is ever committed to /repo; `tools/seed_eval.py` applies a patch to a scratch copy.\n\n"
            "| id | property | file | result of the property's quick check | harnesses that fail | comment |\n|----|----------|------|------|------|------|\n")
    for r in rows:
        f.write("| " + " | ".join(r) + " |\n")
print(len(rows), "seeds")
