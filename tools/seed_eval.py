#!/usr/bin/env python3
"""tools/seed_eval.py <patch.diff> PROP[,PROP...] [extra check args]
Apply a seeded patch to a scratch COPY of /repo and run the quick checks of the given properties against it."""
import os, shutil, subprocess, sys, tempfile
patch, props = sys.argv[1], sys.argv[2].split(",")
rest = sys.argv[3:]
d = tempfile.mkdtemp(prefix="seedeval-", dir="/var/tmp")
try:
    subprocess.check_call(["rsync", "-a", "--exclude", "/target", "--exclude", "/.git", "/repo/", d + "/"])
    subprocess.check_call(["git", "init", "-q"], cwd=d)
    subprocess.check_call(["git", "apply", os.path.abspath(patch)], cwd=d)
    shutil.rmtree(os.path.join(d, ".git"))
    env = dict(os.environ, VERIF_REPO=d, VERIF_NO_EVIDENCE="1")
    here = os.path.dirname(os.path.dirname(os.path.abspath(__file__)))
    for pr in props:
        r = subprocess.run([os.path.join(here, "check"), pr] + rest, env=env, capture_output=True, text=True)
        lines = [l for l in r.stdout.split("\n") if l.startswith(("VIOLATION", "INCONCLUSIVE", "KNOWN")) or "] tier=" in l]
        print(f"SEED {os.path.basename(os.path.dirname(patch))}/{os.path.basename(patch)} vs {pr}: exit={r.returncode}")
        for l in lines[:10]:
            print("   ", l[:240])
finally:
    shutil.rmtree(d, ignore_errors=True)
