#!/bin/bash
# tools/seed_confirm.sh <name> <patch.diff> <demo.diff>
# Confirms a seeded change in a fresh scratch worktree of /repo HEAD (never /repo itself):
#   1. demo alone  : the demonstration test passes on the unmodified tree
#   2. patch alone : the crate builds and the whole existing suite passes
#   3. patch + demo: the demonstration fails
# Prints a summary; removes the worktree and its build output.
set -u
name=$1; patch=$2; demo=$3
wt=/tmp/confirm-$name
git -C /repo worktree remove --force $wt >/dev/null 2>&1
git -C /repo worktree add --detach $wt HEAD >/dev/null 2>&1 || { echo "worktree failed"; exit 2; }
cd $wt
export CARGO_NET_OFFLINE=true
git apply $demo || { echo "CONFIRM $name: demo.diff does not apply"; exit 2; }
demo_tests=$(git diff --unified=0 | grep -E "^\+.*(async )?fn [a-z0-9_]+\(" | sed -E 's/.*fn ([a-z0-9_]+)\(.*/\1/' | tr '\n' ' ')
r1=$(cargo test --offline --lib 2>&1 | grep -E "^test result" | head -1)
echo "CONFIRM $name step1 demo-on-unmodified: $r1"
git checkout -- . ; git clean -fdq
git apply $patch || { echo "CONFIRM $name: patch.diff does not apply"; exit 2; }
r2=$(cargo test --workspace --no-fail-fast --offline 2>&1 | grep -E "^test result|warning: unused|^error" | head -3 | tr '\n' ';')
echo "CONFIRM $name step2 suite-with-patch: $r2"
git apply $demo
r3=$(cargo test --offline --lib 2>&1 | grep -E "^test result|^test .*FAILED" | head -6 | tr '\n' ';')
echo "CONFIRM $name step3 demo-with-patch: $r3"
cd /; git -C /repo worktree remove --force $wt
