"""Harness registry: parsed from structured comments in /verif/harness/*.rs.

    // @verif id=C09.1a props=C09,C10 tier=quick [timeout=900] [mem=12] [kani=--flag,--flag] [group=name]
    // @functions  <comma list of real functions symbolically executed>
    // @bounds     <free text: the bound within which the verdict holds>
    // @asserts    <free text: what is asserted>
    // @assumes    <free text: every kani::assume / stated precondition>   (optional)
    // @outside    <free text: what lies outside>                          (optional)
    // @expect     cover=<n>                                               (optional, min #covers)
    <attributes / macro wrapper>
    fn harness_name() {

Continuation lines: a comment line starting with `//   ` directly after a tag line extends it.
"""
import os
import re

from overlay import VERIF, harness_files, target_of

TIER_STUBS = {
    "A": ["alloc::fmt::format -> String::new() (error-path message formatting only)"],
    "B": [
        "alloc::fmt::format -> String::new()",
        "std::time::SystemTime::now -> UNIX_EPOCH (only used by rate-limited logging)",
        "parking_lot RawRwLock::{lock,unlock}_{exclusive,shared}_slow, RawMutex::{lock,unlock}_slow -> panic!() "
        "(a sequential harness reaching a contended path has self-deadlocked; reported, not assumed away)",
        "std::task::Waker::{wake, wake_by_ref, drop} -> counting/no-op bodies keyed by Waker::data() "
        "(CBMC function-pointer aliasing; the waker itself is a real Waker over a harness vtable)",
    ],
}
TIER_STUBS["C"] = TIER_STUBS["B"] + [
    "stream_dispatch::Timers::arm_in -> records the requested delay, returns true (no tokio time driver)",
    "tokio::sync::mpsc::UnboundedReceiver::poll_recv -> pops a harness inbox (no tokio channel internals)",
    "VirtualSocket built by struct literal; timers.sleep is a zeroed, never-touched Sleep; Transport = recording "
    "transport; UtpEnvironment::now = base instant + harness-controlled offset",
]


class Harness:
    def __init__(self):
        self.id = None
        self.props = []
        self.tier = "quick"
        self.name = None
        self.file = None
        self.fq = None
        self.functions = ""
        self.bounds = ""
        self.asserts = ""
        self.assumes = ""
        self.outside = ""
        self.expect_cover = None
        self.timeout = None
        self.mem_gb = None
        self.kani_args = []
        self.stub_tier = "none"
        self.extra_stubs = []
        self.unwind = None
        self.expect = "pass"   # 'pass' | 'fail' (vacuity twins must FAIL)
        self.unwindset = []    # [(substring of loop id / function, bound)]

    def as_dict(self):
        return {
            "id": self.id, "harness": self.fq, "file": "harness/" + self.file, "tier": self.tier,
            "functions_encoded": self.functions, "bounds": self.bounds, "asserts": self.asserts,
            "assumes": self.assumes, "outside": self.outside, "unwind": self.unwind,
            "unwindset": ["%s:%d" % x for x in self.unwindset],
            "stub_tier": self.stub_tier, "extra_stubs": self.extra_stubs,
        }


def module_path(fname):
    src, inline, ident = target_of(fname)
    p = src[:-3].split("/")
    if p[-1] in ("lib", "mod"):
        p = p[:-1]
    if inline:
        p.append(inline)
    p.append(ident)
    return "::".join(p)


def parse_file(fname):
    path = os.path.join(VERIF, "harness", fname)
    lines = open(path).read().split("\n")
    out = []
    i = 0
    n = len(lines)
    while i < n:
        m = re.match(r"\s*// @verif\s+(.*)$", lines[i])
        if not m:
            i += 1
            continue
        h = Harness()
        h.file = fname
        for kv in m.group(1).split():
            k, _, v = kv.partition("=")
            if k == "id":
                h.id = v
            elif k == "props":
                h.props = v.split(",")
            elif k == "tier":
                h.tier = v
            elif k == "timeout":
                h.timeout = int(v)
            elif k == "mem":
                h.mem_gb = int(v)
            elif k == "kani":
                h.kani_args = v.split(",")
            elif k == "expect":
                h.expect = v
        i += 1
        cur = None
        while i < n:
            l = lines[i]
            t = re.match(r"\s*// @(\w+)\s*(.*)$", l)
            c = re.match(r"\s*//\s{2,}(\S.*)$", l)
            if t:
                cur = t.group(1)
                val = t.group(2).strip()
                if cur == "expect":
                    mm = re.search(r"cover=(\d+)", val)
                    if mm:
                        h.expect_cover = int(mm.group(1))
                elif cur in ("functions", "bounds", "asserts", "assumes", "outside"):
                    setattr(h, cur, val)
                elif cur == "stubs":
                    h.extra_stubs.append(val)
                elif cur == "unwind":
                    h.unwind = int(val)
                elif cur == "tier":
                    h.stub_tier = val.strip().upper()
                elif cur == "unwindset":
                    for kv in val.split(","):
                        k, _, v = kv.strip().partition("=")
                        h.unwindset.append((k.strip(), int(v)))
                i += 1
            elif c and cur in ("functions", "bounds", "asserts", "assumes", "outside"):
                setattr(h, cur, getattr(h, cur) + " " + c.group(1).strip())
                i += 1
            else:
                break
        # scan forward to the fn line, collecting attributes
        while i < n:
            l = lines[i]
            mf = re.match(r"\s*(pub\s+)?fn\s+([A-Za-z0-9_]+)\s*\(", l)
            if mf:
                h.name = mf.group(2)
                break
            mi = re.match(r"\s*[a-z_0-9]+_instance(?:_[a-z]+)?!\(\s*([A-Za-z0-9_]+)\s*,", l)
            if mi:
                h.name = mi.group(1)
                break
            mu = re.search(r"kani::unwind\((\d+)\)", l)
            if mu:
                h.unwind = int(mu.group(1))
            ms = re.search(r"kani::stub\(([^,]+),\s*([^)]+)\)", l)
            if ms:
                h.extra_stubs.append(ms.group(1).strip() + " -> " + ms.group(2).strip())
            mt = re.search(r"verif_tier_([abc])\w*!", l)
            if mt:
                h.stub_tier = mt.group(1).upper()
            if re.search(r"#\[kani::proof\]", l) and h.stub_tier == "none":
                h.stub_tier = "none"
            i += 1
        if h.name is None:
            raise SystemExit(f"registry: no fn after @verif {h.id} in {fname}")
        h.fq = module_path(fname) + "::" + h.name
        out.append(h)
        i += 1
    return out


def load_all():
    hs = []
    for f in harness_files():
        hs.extend(parse_file(f))
    ids = {}
    for h in hs:
        if h.id in ids:
            raise SystemExit(f"registry: duplicate harness id {h.id}")
        ids[h.id] = h
    return hs


def select(prop, tier):
    import json
    hs = [h for h in load_all() if prop in h.props]
    if tier == "quick":
        hs = [h for h in hs if h.tier == "quick"]
        qs = json.load(open(os.path.join(VERIF, "quick_sets.json")))
        if prop in qs:
            want = set(qs[prop])
            missing = want - set(h.id for h in hs)
            if missing:
                raise SystemExit(f"quick_sets.json: unknown or non-quick harness ids for {prop}: {sorted(missing)}")
            hs = [h for h in hs if h.id in want]
    return hs


def stubs_of(h):
    base = TIER_STUBS.get(h.stub_tier, [])
    return list(base) + list(h.extra_stubs)
