"""Overlay construction: a scratch copy of /repo's *current working tree* with the harness modules
injected (add-only) and the build configuration of DESIGN.md §2.1.

Two modes:
  kani    - dev-dependencies stripped, `tracing` patched to the no-op shim, harness modules under
            #[cfg(kani)]
  replay  - real tracing + dev-dependencies kept (so `cargo kani playback`, which builds in test mode,
            links the genuine crate), harness modules under #[cfg(kani)] as well (playback sets it)
"""
import os
import re
import shutil
import subprocess

VERIF = os.path.dirname(os.path.dirname(os.path.abspath(__file__)))
REPO = os.environ.get("VERIF_REPO", "/repo")
SCRATCH = os.environ.get("VERIF_SCRATCH", "/var/tmp")


def harness_files():
    d = os.path.join(VERIF, "harness")
    return sorted(f for f in os.listdir(d) if f.endswith(".rs"))


def target_of(fname):
    """harness file name -> (source file relative to src/, inline module or None, module ident)

    <src path with '.' for '/'>[@inline_mod]__<name>.rs   e.g. congestion.cubic__c15.rs,
    stream_rx@msgq__userq.rs, lib__support.rs
    """
    stem = fname[:-3]
    where, name = stem.split("__", 1)
    inline = None
    if "@" in where:
        where, inline = where.split("@", 1)
    src = where.replace(".", "/") + ".rs"
    ident = "verif_" + re.sub(r"[^A-Za-z0-9_]", "_", stem)
    return src, inline, ident


def make_overlay(dest, mode="kani", only=None):
    """Create overlay at dest/repo. `only`: optional set of harness file names to inject (support
    files `lib__*.rs` are always injected)."""
    assert mode in ("kani", "replay")
    if os.path.exists(dest):
        shutil.rmtree(dest)
    os.makedirs(dest)
    ov = os.path.join(dest, "repo")
    subprocess.check_call(
        ["rsync", "-a", "--exclude", "/target", "--exclude", "/.git", "--exclude", "/examples",
         REPO + "/", ov + "/"]
    )
    hdir = os.path.join(ov, "src", "verif_harness")
    os.makedirs(hdir)
    injected = []
    for f in harness_files():
        if only is not None and f not in only and not f.startswith("lib__"):
            continue
        src, inline, ident = target_of(f)
        shutil.copy(os.path.join(VERIF, "harness", f), os.path.join(hdir, f))
        path = os.path.join(hdir, f)
        decl = f'#[cfg(kani)]\n#[path = "{path}"]\npub(crate) mod {ident};\n'
        sp = os.path.join(ov, "src", src)
        if not os.path.exists(sp):
            raise SystemExit(f"overlay: harness {f} targets missing source file src/{src}")
        s = open(sp).read()
        if inline is None:
            s = s + ("\n" if not s.endswith("\n") else "") + "\n" + decl
        else:
            m = re.search(r"^(\s*)(pub(\([a-z]+\))?\s+)?mod\s+" + re.escape(inline) + r"\s*\{\s*$", s, re.M)
            if not m:
                raise SystemExit(f"overlay: inline module `{inline}` not found in src/{src}")
            s = s[: m.end()] + "\n" + decl + s[m.end():]
        open(sp, "w").write(s)
        injected.append({"harness_file": f, "into": "src/" + src + (("::" + inline) if inline else "")})
    # lib.rs: recursion limit for long #[kani::stub] chains (added line; nothing removed)
    lp = os.path.join(ov, "src", "lib.rs")
    s = open(lp).read()
    s = '#![recursion_limit = "1024"]\n' + s
    open(lp, "w").write(s)
    # Cargo.toml
    cp = os.path.join(ov, "Cargo.toml")
    s = open(cp).read()
    if mode == "kani":
        s = re.sub(r"\[dev-dependencies\].*?(?=\n\[|\Z)", "", s, flags=re.S)
        s += f'\n[patch.crates-io]\ntracing = {{ path = "{VERIF}/shim/tracing" }}\n'
        # examples/ not copied
    s += "\n[workspace]\n"
    open(cp, "w").write(s)
    os.makedirs(os.path.join(ov, ".cargo"), exist_ok=True)
    open(os.path.join(ov, ".cargo", "config.toml"), "w").write("[net]\noffline = true\n")
    return ov, injected


def remove_overlay(dest):
    shutil.rmtree(dest, ignore_errors=True)
