//! `#[tracing::instrument]` stand-in for the verification build: returns the item unchanged.
use proc_macro::TokenStream;
#[proc_macro_attribute]
pub fn instrument(_args: TokenStream, item: TokenStream) -> TokenStream {
    item
}
