//! No-op stand-in for the `tracing` crate, used ONLY in the Kani verification build of
//! librqbit-utp (see /verif/DESIGN.md §2.1). Every event/span macro swallows its tokens, so log
//! statements and their argument expressions are not part of the verified program.
pub use verif_tracing_attrs::instrument;

#[derive(Clone, Copy, Debug, PartialEq, Eq, PartialOrd, Ord, Hash)]
pub struct Level(u8);
impl Level {
    pub const ERROR: Level = Level(1);
    pub const WARN: Level = Level(2);
    pub const INFO: Level = Level(3);
    pub const DEBUG: Level = Level(4);
    pub const TRACE: Level = Level(5);
}

#[derive(Clone, Debug, PartialEq, Eq, Hash)]
pub struct Id(u64);

pub mod span {
    pub use super::{Id, Span};
    pub struct Entered<'a>(pub(crate) core::marker::PhantomData<&'a ()>);
    pub struct EnteredSpan;
}

#[derive(Clone, Debug, Default)]
pub struct Span;
impl Span {
    pub const fn none() -> Span {
        Span
    }
    pub fn current() -> Span {
        Span
    }
    pub fn enter(&self) -> span::Entered<'_> {
        span::Entered(core::marker::PhantomData)
    }
    pub fn entered(self) -> span::EnteredSpan {
        span::EnteredSpan
    }
    pub fn id(&self) -> Option<Id> {
        None
    }
    pub fn in_scope<F: FnOnce() -> T, T>(&self, f: F) -> T {
        f()
    }
    pub fn is_none(&self) -> bool {
        true
    }
}

pub mod instrument_impl {
    use core::{
        future::Future,
        pin::Pin,
        task::{Context, Poll},
    };
    pub struct Instrumented<T> {
        pub(crate) inner: T,
    }
    impl<T: Future> Future for Instrumented<T> {
        type Output = T::Output;
        fn poll(self: Pin<&mut Self>, cx: &mut Context<'_>) -> Poll<Self::Output> {
            unsafe { self.map_unchecked_mut(|s| &mut s.inner) }.poll(cx)
        }
    }
}
pub trait Instrument: Sized {
    fn instrument(self, _span: Span) -> instrument_impl::Instrumented<Self> {
        instrument_impl::Instrumented { inner: self }
    }
    fn in_current_span(self) -> instrument_impl::Instrumented<Self> {
        instrument_impl::Instrumented { inner: self }
    }
}
impl<T: Sized> Instrument for T {}

#[macro_export]
macro_rules! event { ($($t:tt)*) => {{}}; }
#[macro_export]
macro_rules! trace { ($($t:tt)*) => {{}}; }
#[macro_export]
macro_rules! debug { ($($t:tt)*) => {{}}; }
#[macro_export]
macro_rules! info { ($($t:tt)*) => {{}}; }
#[macro_export]
macro_rules! warn { ($($t:tt)*) => {{}}; }
#[macro_export]
macro_rules! error { ($($t:tt)*) => {{}}; }
#[macro_export]
macro_rules! span { ($($t:tt)*) => { $crate::Span::none() }; }
#[macro_export]
macro_rules! trace_span { ($($t:tt)*) => { $crate::Span::none() }; }
#[macro_export]
macro_rules! debug_span { ($($t:tt)*) => { $crate::Span::none() }; }
#[macro_export]
macro_rules! info_span { ($($t:tt)*) => { $crate::Span::none() }; }
#[macro_export]
macro_rules! warn_span { ($($t:tt)*) => { $crate::Span::none() }; }
#[macro_export]
macro_rules! error_span { ($($t:tt)*) => { $crate::Span::none() }; }
#[macro_export]
macro_rules! enabled { ($($t:tt)*) => { false }; }
