// Demonstrations of defects found by the verification effort. Each test fails on the
// unmodified tree because of exactly one defect, and passes once the matching fix is applied.

use std::{
    collections::BTreeMap,
    future::poll_fn,
    pin::Pin,
    sync::{
        Arc,
        atomic::{AtomicUsize, Ordering},
    },
    task::{Context, Poll},
    time::Duration,
};

use futures::FutureExt;
use tokio::io::{AsyncRead, AsyncWrite, AsyncWriteExt, ReadBuf};

use crate::{
    SocketOpts,
    constants::{IPV4_HEADER, UDP_HEADER, UTP_HEADER},
    message::UtpMessage,
    raw::{
        Extensions, Type::*, UtpHeader, ext_close_reason::LibTorrentCloseReason,
        selective_ack::SelectiveAck,
    },
    stream_dispatch::tests::{TestVsock, calc_mtu_for_mss, make_test_vsock},
};

const fn calc_payload_size(mtu: u16) -> usize {
    (mtu - IPV4_HEADER - UTP_HEADER - UDP_HEADER) as usize
}

// ASCII only (UtpMessage's Debug impl in cfg(test) does from_utf8().unwrap()), and NOT uniform:
// the period (23) is co-prime with every segment size used, so any shift of the stream is visible.
fn patterned_payload(len: usize) -> Vec<u8> {
    (0..len).map(|i| b'a' + (i % 23) as u8).collect()
}

// ---------------------------------------------------------------------------------------------
// D1: UtpHeader::serialize corrupts the extension chain when more than one extension is present.
// ---------------------------------------------------------------------------------------------
#[test]
fn demo_d1_header_with_two_extensions_roundtrips() {
    let header = UtpHeader {
        htype: ST_FIN,
        connection_id: 30796.into(),
        timestamp_microseconds: 2293274188,
        timestamp_difference_microseconds: 1967430273,
        wnd_size: 1048576,
        seq_nr: 54661.into(),
        ack_nr: 54397.into(),
        extensions: Extensions {
            selective_ack: Some(SelectiveAck::deserialize(&[
                0b0000_0101,
                0,
                0,
                0b1000_0000,
                0,
                0,
                0,
                1,
            ])),
            close_reason: Some(LibTorrentCloseReason(15)),
        },
    };

    let mut buf = [0u8; 64];
    let len = header.serialize(&mut buf).unwrap();
    // 20 bytes fixed header + (2 + 8) selective ack + (2 + 4) close reason
    assert_eq!(len, 36, "serialized length");

    let (parsed, parsed_len) = UtpHeader::deserialize(&buf[..len])
        .expect("a header we serialized ourselves must be parseable");
    assert_eq!(
        (parsed_len, parsed),
        (len, header),
        "header must round-trip through serialize/deserialize; extension bytes on the wire: \
         header.extension={}, ext1=[next={}, len={}, ..], ext2=[next={}, len={}, ..]",
        buf[1],
        buf[20],
        buf[21],
        buf[30],
        buf[31]
    );

    // What BEP-29 says the extension chain must look like.
    assert_eq!(
        buf[1], 1,
        "header.extension must announce selective ack (1)"
    );
    assert_eq!(buf[20], 3, "ext1.next must announce close reason (3)");
    assert_eq!(buf[21], 8, "ext1.len must be the selective ack length");
    assert_eq!(buf[30], 0, "ext2.next must terminate the chain");
    assert_eq!(buf[31], 4, "ext2.len must be the close reason length");
}

// ---------------------------------------------------------------------------------------------
// D2: a failed MTU probe is removed from Segments without restoring len_bytes / offset, so its
// bytes are never re-segmented: the byte stream on the wire skips them.
// ---------------------------------------------------------------------------------------------

/// What the remote would reassemble: for every sequence number take the LAST transmitted version
/// (a failed MTU probe is replaced by a smaller segment with the same seq_nr), order by seq_nr and
/// check that the concatenation is a prefix of what the user wrote.
fn check_wire_stream_is_prefix_of(written: &[u8], sent: &[UtpMessage]) -> Result<usize, String> {
    let mut by_seq_nr: BTreeMap<u16, &UtpMessage> = BTreeMap::new();
    for msg in sent.iter().filter(|m| m.header.htype == ST_DATA) {
        by_seq_nr.insert(msg.header.seq_nr.0, msg);
    }
    let mut offset = 0usize;
    let mut expected_seq_nr = 101u16;
    for (seq_nr, msg) in by_seq_nr {
        if seq_nr != expected_seq_nr {
            return Err(format!(
                "gap in sequence numbers: expected {expected_seq_nr}, got {seq_nr}"
            ));
        }
        expected_seq_nr += 1;
        let p = msg.payload();
        let expected = written
            .get(offset..offset + p.len())
            .ok_or_else(|| format!("seq_nr {seq_nr} goes past the end of the written data"))?;
        if p != expected {
            let first_bad = p.iter().zip(expected).position(|(a, b)| a != b).unwrap();
            return Err(format!(
                "payload mismatch at seq_nr {seq_nr} (stream offset {offset}, payload len {}): \
                 byte {first_bad} of the payload is {:?} but the written stream has {:?} there",
                p.len(),
                p[first_bad] as char,
                expected[first_bad] as char,
            ));
        }
        offset += p.len();
    }
    Ok(offset)
}

fn ack(t: &mut TestVsock, ack_nr: u16, wnd_size: u32) {
    t.env.increment_now(Duration::from_secs(1));
    t.send_msg(
        UtpHeader {
            htype: ST_STATE,
            seq_nr: 1.into(),
            ack_nr: ack_nr.into(),
            wnd_size,
            ..Default::default()
        },
        "",
    );
}

/// Same scenario as mtu_probing::probe_retry_if_emsgsize (the local stack rejects too large
/// datagrams with EMSGSIZE, the probe is popped and retried at once), but with a patterned payload.
async fn d2_scenario_emsgsize() -> Result<usize, String> {
    let mut t = make_test_vsock(
        SocketOpts {
            disable_nagle: true,
            ..Default::default()
        },
        false,
    );
    const FAKE_MTU: usize = 1000;
    t.transport
        .set_max_payload_len((FAKE_MTU as u16 - IPV4_HEADER - UDP_HEADER) as usize);
    t.vsock
        .segment_sizes
        .set_probe_expiry_cooldown_max_packets(2);
    t.vsock
        .congestion_controller
        .on_recovered(1024 * 1024, 100 * 1024 * 1024);

    let written = patterned_payload(30000);
    let (_r, mut w) = t.stream.take().unwrap().split();
    w.write_all(&written).await.unwrap();

    let mut all_sent = Vec::new();
    for _round in 0..8 {
        t.poll_once_assert_pending().await;
        // NOTE: RememberingTransport also records the datagrams it rejected with EMSGSIZE.
        let sent = t.take_sent();
        let last = match sent.last() {
            Some(last) => last.header.seq_nr.0,
            None => break,
        };
        all_sent.extend(sent);
        ack(&mut t, last, (calc_payload_size(1000) * 5) as u32 - 1);
    }
    assert!(
        all_sent.iter().map(|m| m.payload().len()).max().unwrap() > calc_payload_size(1000),
        "the scenario must contain at least one rejected probe"
    );
    check_wire_stream_is_prefix_of(&written, &all_sent)
}

/// Same scenario as mtu_probing::test_mtu_probing (link MTU 1500, real path MTU 1280: larger
/// datagrams are silently dropped, the probe expires after an RTO), but with a patterned payload.
async fn d2_scenario_probe_expiry() -> Result<usize, String> {
    let mut t = make_test_vsock(
        SocketOpts {
            link_mtu: Some(non_zero_const!(1500)),
            mtu_probe_max_retransmissions: Some(0),
            vsock_tx_bufsize_bytes_initial: Some(non_zero_const!(1024 * 1024)),
            disable_nagle: true,
            ..Default::default()
        },
        false,
    );
    let (_r, mut w) = t.stream.take().unwrap().split();
    t.vsock
        .congestion_controller
        .on_recovered(1024 * 1024, 100 * 1024 * 1024);
    t.vsock
        .segment_sizes
        .set_probe_expiry_cooldown_max_packets(3);

    const PATH_MAX_PAYLOAD: usize = calc_payload_size(1280);
    const RWND: u32 = PATH_MAX_PAYLOAD as u32 * 6 - 1;

    let written = patterned_payload(200000);
    w.write_all(&written).await.unwrap();

    let mut all_sent = Vec::new();
    let mut dropped_probes = 0;
    for _round in 0..12 {
        t.poll_once_assert_pending().await;
        let sent = t.take_sent();
        if sent.is_empty() {
            break;
        }
        // The path delivers everything up to the first too large datagram.
        let mut cumulative_ack = None;
        let mut dropped = false;
        for m in &sent {
            if m.payload().len() > PATH_MAX_PAYLOAD {
                dropped = true;
                break;
            }
            cumulative_ack = Some(m.header.seq_nr.0);
        }
        all_sent.extend(sent);
        if let Some(ack_nr) = cumulative_ack {
            ack(&mut t, ack_nr, RWND);
        }
        if dropped {
            dropped_probes += 1;
            // Deliver the ACK. Nothing new is sent while the probe is outstanding.
            t.poll_once_assert_pending().await;
            all_sent.extend(t.take_sent());
            // The probe expires.
            t.env.increment_now(t.vsock.rtte.retransmission_timeout());
        }
    }
    assert!(
        dropped_probes > 0,
        "the scenario must contain at least one lost probe"
    );
    check_wire_stream_is_prefix_of(&written, &all_sent)
}

#[tokio::test]
async fn demo_d2_failed_mtu_probe_does_not_skip_stream_bytes() {
    let emsgsize = d2_scenario_emsgsize().await;
    let expiry = d2_scenario_probe_expiry().await;
    assert!(
        emsgsize.is_ok() && expiry.is_ok(),
        "the byte stream put on the wire is not the byte stream the user wrote:\n  \
         probe rejected with EMSGSIZE: {emsgsize:?}\n  \
         probe expired after RTO:      {expiry:?}"
    );
}

// ---------------------------------------------------------------------------------------------
// D3: poll_shutdown() does not wake the dispatcher, so on an idle connection FIN is not sent
// until something unrelated polls the dispatcher.
// ---------------------------------------------------------------------------------------------
struct CountingWaker(AtomicUsize);

impl futures::task::ArcWake for CountingWaker {
    fn wake_by_ref(arc_self: &Arc<Self>) {
        arc_self.0.fetch_add(1, Ordering::SeqCst);
    }
}

#[tokio::test]
async fn demo_d3_shutdown_wakes_dispatcher() {
    let mut t = make_test_vsock(Default::default(), false);
    let (_r, mut w) = t.stream.take().unwrap().split();

    let counter = Arc::new(CountingWaker(AtomicUsize::new(0)));
    let dispatcher_waker = futures::task::waker(counter.clone());
    let mut dispatcher_cx = Context::from_waker(&dispatcher_waker);

    // The dispatcher goes idle: nothing to send, nothing to receive, no timers armed. It leaves
    // its waker with the write half so that it learns about new data / shutdown.
    assert!(t.vsock.poll_unpin(&mut dispatcher_cx).is_pending());
    t.assert_sent_empty();
    assert!(
        t.vsock.user_tx.locked.read().dispatcher_waker.is_some(),
        "dispatcher must have registered its waker with the write half"
    );
    let wakes_before = counter.0.load(Ordering::SeqCst);

    // The user shuts down the stream (polled from a different task, hence a different waker).
    let shutdown_res = poll_fn(|cx| Poll::Ready(Pin::new(&mut w).poll_shutdown(cx))).await;
    assert!(
        shutdown_res.is_pending(),
        "shutdown completes only when FIN is ACKed"
    );
    assert!(t.vsock.user_tx.is_writer_shutdown());

    let wakes = counter.0.load(Ordering::SeqCst) - wakes_before;
    assert!(
        wakes > 0,
        "poll_shutdown() must wake the dispatcher so that FIN is sent at once, \
         but the dispatcher was woken {wakes} times (it will sleep until something unrelated polls it)"
    );

    // What the executor does after the wake-up: poll the dispatcher, which sends FIN.
    assert!(t.vsock.poll_unpin(&mut dispatcher_cx).is_pending());
    assert_eq!(t.take_sent(), vec![cmphead!(ST_FIN, seq_nr = 101)]);
}

// ---------------------------------------------------------------------------------------------
// D7: the size of INCOMING payloads raises our own segment size ceiling above the configured
// link MTU.
// ---------------------------------------------------------------------------------------------
#[tokio::test]
async fn demo_d7_peer_payload_size_does_not_lift_link_mtu_ceiling() {
    const LINK_MTU: u16 = 1000;
    const MAX_PAYLOAD: usize = calc_payload_size(LINK_MTU); // 952

    let mut t = make_test_vsock(
        SocketOpts {
            link_mtu: Some(non_zero_const!(LINK_MTU as usize)),
            vsock_tx_bufsize_bytes_initial: Some(non_zero_const!(1024 * 1024)),
            disable_nagle: true,
            ..Default::default()
        },
        false,
    );
    assert_eq!(t.vsock.segment_sizes.max_ss() as usize, MAX_PAYLOAD);
    t.vsock
        .congestion_controller
        .on_recovered(1024 * 1024, 100 * 1024 * 1024);

    // The peer sits on a link with a larger MTU, its datagrams reach us (e.g. fragmented).
    let peer_payload = String::from_utf8(vec![b'p'; 1400]).unwrap();
    t.send_data(1, 100, &peer_payload);
    t.poll_once_assert_pending().await;
    t.take_sent();

    let (_r, mut w) = t.stream.take().unwrap().split();
    w.write_all(&patterned_payload(20000)).await.unwrap();

    let mut data_sizes = Vec::new();
    for _round in 0..4 {
        t.poll_once_assert_pending().await;
        let sent = t.take_sent();
        let last = match sent.iter().filter(|m| m.header.htype == ST_DATA).last() {
            Some(m) => m.header.seq_nr.0,
            None => break,
        };
        data_sizes.extend(
            sent.iter()
                .filter(|m| m.header.htype == ST_DATA)
                .map(|m| m.payload().len()),
        );
        ack(&mut t, last, 1024 * 1024);
    }

    assert!(!data_sizes.is_empty(), "expected some ST_DATA to be sent");
    let largest = *data_sizes.iter().max().unwrap();
    assert!(
        largest <= MAX_PAYLOAD,
        "link_mtu={LINK_MTU} allows at most {MAX_PAYLOAD} bytes of uTP payload per datagram, but after \
         receiving a 1400 byte payload from the peer we sent a {largest} byte payload \
         (a {} byte IP datagram); segment sizes: {:?}; sent payload sizes: {data_sizes:?}",
        largest + (IPV4_HEADER + UDP_HEADER + UTP_HEADER) as usize,
        t.vsock.segment_sizes.log_debug(),
    );
    assert!(
        t.vsock.segment_sizes.max_ss() as usize <= MAX_PAYLOAD,
        "max_ss must never exceed what link_mtu allows"
    );
}

// ---------------------------------------------------------------------------------------------
// D6: an in-order FIN that arrives while the reassembly queue is full is ACKed, but EOF is lost.
// ---------------------------------------------------------------------------------------------
#[tokio::test]
async fn demo_d6_fin_while_reassembly_queue_full_still_delivers_eof() {
    const MSS: usize = 5;
    let mut t = make_test_vsock(
        SocketOpts {
            // User RX queue: 10 bytes. Reassembly queue: 10 / 5 = 2 slots.
            vsock_rx_bufsize_bytes: Some(non_zero_const!(MSS * 2)),
            link_mtu: Some(calc_mtu_for_mss(MSS)),
            ..Default::default()
        },
        false,
    );
    let (mut r, _w) = t.stream.take().unwrap().split();

    let fin = |t: &mut TestVsock, seq_nr: u16, ack_nr: u16| {
        t.send_msg(
            UtpHeader {
                htype: ST_FIN,
                seq_nr: seq_nr.into(),
                ack_nr: ack_nr.into(),
                wnd_size: 1024 * 1024,
                ..Default::default()
            },
            "",
        )
    };

    // The reader is not reading. The user RX queue fills up.
    t.send_data(1, 100, "aaaaa");
    t.send_data(2, 100, "bbbbb");
    t.poll_once_assert_pending().await;
    assert_eq!(t.vsock.user_rx.len_test(), 10);
    assert_eq!(t.vsock.user_rx.assembler_packets(), 0);

    // The remote keeps going (zero window probes / in-flight data): the segments are in order, so they
    // are accepted into the reassembly queue, but they can't be flushed to the user.
    t.send_data(3, 100, "ccccc");
    t.send_data(4, 100, "ddddd");
    t.poll_once_assert_pending().await;
    assert_eq!(t.vsock.user_rx.assembler_packets(), 2);
    assert_eq!(t.vsock.last_consumed_remote_seq_nr, 4.into());

    // The remote has nothing more to send: in-order FIN.
    fin(&mut t, 5, 100);
    t.poll_once_assert_pending().await;
    let sent = t.take_sent();
    let mut remote_fin_acked = sent.iter().any(|m| m.header.ack_nr == 5.into());
    let mut our_fin_seen = sent.iter().any(|m| m.header.htype == ST_FIN);

    // Now the reader wakes up and reads everything. The dispatcher is polled in between (that's what the
    // reader's wake-ups do). The remote behaves: as long as its FIN is not ACKed it retransmits it, and it
    // ACKs our FIN (a bit late, so that the dispatcher stays alive while the reader is catching up).
    let mut received = Vec::new();
    let mut eof = None;
    let mut vsock_done = false;
    for _ in 0..10 {
        let mut buf = [0u8; 64];
        let mut rb = ReadBuf::new(&mut buf);
        let res = poll_fn(|cx| Poll::Ready(Pin::new(&mut r).poll_read(cx, &mut rb))).await;
        match res {
            Poll::Ready(Ok(())) if rb.filled().is_empty() => {
                eof = Some(Ok(()));
                break;
            }
            Poll::Ready(Ok(())) => received.extend_from_slice(rb.filled()),
            Poll::Ready(Err(e)) => {
                eof = Some(Err(e.to_string()));
                break;
            }
            Poll::Pending => {}
        }
        if vsock_done {
            continue;
        }
        t.env.increment_now(Duration::from_millis(100));
        if !remote_fin_acked {
            fin(&mut t, 5, 100);
        }
        if our_fin_seen && received.len() == 20 {
            t.send_msg(
                UtpHeader {
                    htype: ST_STATE,
                    seq_nr: 5.into(),
                    ack_nr: 101.into(),
                    wnd_size: 1024 * 1024,
                    ..Default::default()
                },
                "",
            );
        }
        vsock_done = t.poll_once().await.is_ready();
        for m in t.take_sent() {
            remote_fin_acked |= m.header.ack_nr == 5.into();
            our_fin_seen |= m.header.htype == ST_FIN;
        }
    }

    assert_eq!(
        std::str::from_utf8(&received).unwrap(),
        "aaaaabbbbbcccccddddd",
        "all data must be delivered"
    );
    assert_eq!(
        eof,
        Some(Ok(())),
        "the remote's FIN (seq_nr=5) was ACKed by us ({remote_fin_acked}), so the reader must see a clean EOF after the data"
    );
}
