//! Send half shared between writer and dispatcher (`UserTx`, `UtpStreamWriteHalf`): single API calls
//! from pre-states over every combination of the lifecycle flags and ring occupancy (tier B).
//! Serves C02.W/R, C03.F1, C19, C01.S4 (DESIGN §3).
#![allow(unused_imports, dead_code)]
use super::*;
use crate::verif_lib__support::{slot_is, waker, wakes};
use std::pin::Pin;
use std::task::Context;

pub const W_DISP: usize = 0;
pub const W_WRITER: usize = 1;
pub const W_OTHER: usize = 3;

/// A UserTx whose ring (capacity CAP) is written directly: storage bytes symbolic, read/write indices
/// concrete (`read` in 0..CAP, `fill` occupied bytes, so the content may straddle the wrap point).
/// No chain of pushes (DESIGN C01.R2 single-step discipline). Returns the ghost content model:
/// model[i] = i-th buffered byte.
pub fn make_tx_at<const CAP: usize>(read: usize, fill: usize) -> (Arc<UserTx>, UtpStreamWriteHalf, [u8; CAP]) {
    use ringbuf::storage::Heap;
    use std::mem::MaybeUninit;
    let raw: [u8; CAP] = kani::any();
    let mut v: Vec<MaybeUninit<u8>> = Vec::with_capacity(CAP);
    let mut i = 0;
    while i < CAP {
        v.push(MaybeUninit::new(raw[i]));
        i += 1;
    }
    let rb: RingBuf = unsafe { SharedRb::from_raw_parts(Heap::from(v), read, read + fill) };
    let (prod, cons) = rb.split();
    let tx = Arc::new(UserTx {
        locked: RwLock::new(UserTxLocked {
            dispatcher_waker: None,
            writer_waker: None,
            vsock_closed: false,
            writer_dropped: false,
            writer_shutdown: false,
        }),
        producer: Mutex::new(prod),
        consumer: Mutex::new(cons),
    });
    let mut model = [0u8; CAP];
    let mut i = 0;
    while i < CAP {
        if i < fill {
            model[i] = raw[(read + i) % CAP];
        }
        i += 1;
    }
    let wh = UtpStreamWriteHalf::new(tx.clone());
    (tx, wh, model)
}

pub fn make_tx<const CAP: usize>(fill: usize) -> (Arc<UserTx>, UtpStreamWriteHalf, [u8; CAP]) {
    make_tx_at::<CAP>(0, fill)
}

pub struct Flags {
    pub vsock_closed: bool,
    pub writer_dropped: bool,
    pub writer_shutdown: bool,
}

pub fn any_flags(tx: &UserTx, disp_registered: bool) -> Flags {
    let f = Flags { vsock_closed: kani::any(), writer_dropped: kani::any(), writer_shutdown: kani::any() };
    let mut g = tx.locked.write();
    g.vsock_closed = f.vsock_closed;
    g.writer_dropped = f.writer_dropped;
    g.writer_shutdown = f.writer_shutdown;
    if disp_registered {
        g.dispatcher_waker = Some(waker(W_DISP));
    }
    if kani::any() {
        g.writer_waker = Some(waker(W_OTHER));
    }
    f
}

fn occupancy(tx: &UserTx) -> usize {
    let c = tx.consumer.lock();
    let (a, b) = c.as_slices();
    a.len() + b.len()
}

/// i-th byte of the ring content (concatenation of the two slices).
fn ring_byte(tx: &UserTx, i: usize) -> u8 {
    let c = tx.consumer.lock();
    let (a, b) = c.as_slices();
    if i < a.len() { a[i] } else { b[i - a.len()] }
}

fn poll_write(wh: &mut UtpStreamWriteHalf, buf: &[u8]) -> Poll<std::io::Result<usize>> {
    let w = waker(W_WRITER);
    let mut cx = Context::from_waker(&w);
    Pin::new(wh).poll_write(&mut cx, buf)
}

// ---- poll_write -------------------------------------------------------------------------------

fn write_step<const CAP: usize>(read: usize, fill: usize) -> u8 {
    let (tx, mut wh, model) = make_tx_at::<CAP>(read, fill);
    let f = any_flags(&tx, true);
    let data: [u8; 6] = kani::any();
    let n: usize = kani::any();
    kani::assume(n <= 6);
    let r = poll_write(&mut wh, &data[..n]);
    let room = CAP - fill;
    let dead = f.vsock_closed || f.writer_dropped || f.writer_shutdown;
    let code: u8 = match &r { Poll::Ready(Ok(_)) => 0, Poll::Pending => 1, Poll::Ready(Err(_)) => 2 };
    match &r {
        Poll::Ready(Ok(k)) => {
            let k = *k;
            assert!(!dead, "C03: no write succeeds after close / shutdown / abort");
            assert!(k == core::cmp::min(n, room) && k > 0, "C19: write accepts exactly what fits, and reports it");
            assert!(occupancy(&tx) == fill + k && occupancy(&tx) <= CAP, "C19: buffered bytes never exceed the transmit buffer");
            let i: usize = kani::any();
            if i < fill {
                assert!(ring_byte(&tx, i) == model[i], "C01: earlier bytes untouched by a write");
            } else if i < fill + k {
                assert!(ring_byte(&tx, i) == data[i - fill], "C01: accepted bytes are appended in order, unaltered");
            }
            assert!(wakes(W_DISP) == 1 && tx.locked.read().dispatcher_waker.is_none(), "C02: accepting bytes wakes the parked dispatcher at once");
        }
        Poll::Pending => {
            assert!(!dead, "C03: writes on a dead/closed stream fail instead of hanging");
            assert!(n == 0 || room == 0, "C19: write waits only when the buffer is full");
            assert!(occupancy(&tx) == fill, "C19: a waiting write buffers nothing");
            assert!(slot_is(&tx.locked.read().writer_waker, W_WRITER), "C02: a blocked writer leaves ITS waker registered (no lost wake-up)");
        }
        Poll::Ready(Err(_)) => {
            assert!(dead, "C03: write errors only after close / shutdown / abort");
            assert!(occupancy(&tx) == fill, "C03: a failed write buffers nothing");
        }
    }
    std::mem::forget(r);
    std::mem::forget(wh);
    std::mem::forget(tx);
    code
}

// @verif id=TX.write.a props=C19,C02,C03,C01 tier=quick
// @functions UtpStreamWriteHalf::poll_write, ringbuf Producer::push_slice, utils::update_optional_waker
// @bounds ring capacity 4 holding 2 bytes that straddle the wrap point (read index 3); EVERY combination of vsock_closed/writer_dropped/writer_shutdown; stale writer waker present or not; dispatcher parked; write of 0..=6 symbolic bytes
// @asserts Ok(k): k == min(len, free) > 0, occupancy grows by k and stays <= capacity, bytes appended in order unaltered (checked at an arbitrary index), dispatcher woken; Pending only when full (or empty input) with the caller's waker registered; Err iff closed/shutdown/dropped, nothing buffered
crate::verif_tier_b! {
#[kani::unwind(8)]
fn tx_write_cap4_fill2() {
    let c = write_step::<4>(3, 2);
    kani::cover!(c == 0, "bytes accepted");
    kani::cover!(c == 1, "waiting");
    kani::cover!(c == 2, "refused after close");
}
}

// @verif id=TX.write.b props=C19,C02,C03 tier=quick
// @functions UtpStreamWriteHalf::poll_write
// @bounds ring capacity 4 completely full; all flag combinations; write of 0..=6 bytes
// @asserts back-pressure: Pending with the writer's waker registered, nothing buffered beyond the limit
crate::verif_tier_b! {
#[kani::unwind(8)]
fn tx_write_cap4_full() {
    let c = write_step::<4>(1, 4);
    kani::cover!(c == 1, "back-pressure");
    assert!(c != 0, "C19: a full buffer accepts nothing");
}
}

// @verif id=TX.write.c props=C19,C02,C03,C01 tier=quick
// @functions UtpStreamWriteHalf::poll_write
// @bounds empty ring of capacity 4; all flag combinations; write of 0..=6 bytes
// @asserts as TX.write.a (idle connection: the write wakes the dispatcher so it is transmitted at once)
crate::verif_tier_b! {
#[kani::unwind(8)]
fn tx_write_cap4_empty() {
    let c = write_step::<4>(0, 0);
    kani::cover!(c == 0, "bytes accepted");
}
}

// ---- poll_flush / poll_shutdown ---------------------------------------------------------------

fn flush_or_shutdown<const CAP: usize>(fill: usize, shutdown: bool) {
    let (tx, mut wh, _model) = make_tx::<CAP>(fill);
    let f = any_flags(&tx, true);
    let w = waker(W_WRITER);
    let mut cx = Context::from_waker(&w);
    let r = if shutdown { Pin::new(&mut wh).poll_shutdown(&mut cx) } else { Pin::new(&mut wh).poll_flush(&mut cx) };
    kani::cover!(r.is_pending(), "waiting");
    kani::cover!(matches!(r, Poll::Ready(Ok(()))), "success");
    match &r {
        Poll::Ready(Ok(())) => {
            assert!(fill == 0, "C03: flush/shutdown succeed only when every written byte was acknowledged and removed from the buffer");
        }
        Poll::Ready(Err(_)) => {
            assert!(f.vsock_closed && fill > 0, "C03: failure is reported exactly when the connection died with bytes unacknowledged");
        }
        Poll::Pending => {
            assert!(!f.vsock_closed, "C03: flush/shutdown never hang on a dead connection");
            assert!(slot_is(&tx.locked.read().writer_waker, W_WRITER), "C02: a waiting flush/shutdown leaves ITS waker registered");
            if shutdown && fill == 0 {
                assert!(tx.is_writer_shutdown(), "C17: shutdown request recorded for the dispatcher");
                if !f.writer_shutdown {
                    assert!(wakes(W_DISP) >= 1, "C02: a shutdown request wakes the dispatcher (FIN sent at once)");
                }
            }
        }
    }
    if !(shutdown && fill == 0 && !f.vsock_closed) {
        assert!(tx.is_writer_shutdown() == f.writer_shutdown, "C17: shutdown flag changes only when the request is recorded");
    }
    assert!(occupancy(&tx) == fill, "C19: flush/shutdown never drop buffered bytes");
    std::mem::forget(r);
    std::mem::forget(wh);
    std::mem::forget(tx);
}

// @verif id=TX.flush props=C03,C02 tier=quick
// @functions UtpStreamWriteHalf::poll_flush
// @bounds ring capacity 4, empty or holding 2 bytes; all 8 flag combinations; stale waker or not
// @asserts Ready(Ok) only with an empty ring; ring non-empty and connection dead => Ready(Err); never Pending once the connection is dead; Pending registers the caller's waker; buffered bytes untouched
crate::verif_tier_b! {
#[kani::unwind(8)]
fn tx_flush_all_flags() {
    if kani::any() {
        flush_or_shutdown::<4>(0, false);
    } else {
        flush_or_shutdown::<4>(2, false);
    }
    kani::cover!(true, "end of harness reachable (assumptions satisfiable, no unconditional failure)");
}
}

// @verif id=TX.shutdown props=C03,C02,C17 tier=quick
// @functions UtpStreamWriteHalf::poll_shutdown, UserTx::is_writer_shutdown
// @bounds ring capacity 4, empty or holding 2 bytes; all 8 flag combinations; dispatcher parked
// @asserts Ready(Ok) only with an empty ring (and only once the connection has closed); dead connection with bytes left => Err; Pending registers the caller's waker; a newly recorded shutdown request wakes the dispatcher; request recorded only when nothing is left unflushed
crate::verif_tier_b! {
#[kani::unwind(8)]
fn tx_shutdown_all_flags() {
    if kani::any() {
        flush_or_shutdown::<4>(0, true);
    } else {
        flush_or_shutdown::<4>(2, true);
    }
    kani::cover!(true, "end of harness reachable (assumptions satisfiable, no unconditional failure)");
}
}

// @verif id=TX.shutdown_wake props=C02 tier=quick
// @functions UtpStreamWriteHalf::poll_shutdown
// @bounds idle established connection: empty ring, no flags set, dispatcher parked with its waker registered
// @asserts the shutdown request wakes the dispatcher in the same call (so the FIN is emitted at once), and stays pending until the connection closes
crate::verif_tier_b! {
#[kani::unwind(8)]
fn tx_shutdown_idle_wakes_dispatcher() {
    let (tx, mut wh, _m) = make_tx::<4>(0);
    tx.locked.write().dispatcher_waker = Some(waker(W_DISP));
    let w = waker(W_WRITER);
    let mut cx = Context::from_waker(&w);
    let r = Pin::new(&mut wh).poll_shutdown(&mut cx);
    let pending = r.is_pending();
    std::mem::forget(r);
    assert!(pending, "C03: shutdown completes only after the FIN exchange");
    assert!(tx.is_writer_shutdown(), "C17: request recorded");
    assert!(wakes(W_DISP) >= 1, "C02: shutdown request wakes the dispatcher");
    std::mem::forget(wh);
    std::mem::forget(tx);
    kani::cover!(true, "end of harness reachable (assumptions satisfiable, no unconditional failure)");
}
}

// ---- lifecycle wakes --------------------------------------------------------------------------

// @verif id=TX.life props=C02,C03,C08 tier=quick
// @functions UtpStreamWriteHalf::drop, UserTxLocked::mark_writer_dropped, UserTx::mark_vsock_closed, UserTxLocked::mark_vsock_closed, UserTx::is_writer_dropped
// @bounds writer dropped with the dispatcher parked; then the dispatcher marks the connection closed with a writer waker registered
// @asserts drop wakes the dispatcher exactly once and sets writer_dropped; mark_vsock_closed wakes the blocked writer and sets the flag
crate::verif_tier_b! {
#[kani::unwind(8)]
fn tx_drop_and_close_wake() {
    let (tx, wh, _m) = make_tx::<4>(0);
    tx.locked.write().dispatcher_waker = Some(waker(W_DISP));
    drop(wh);
    assert!(wakes(W_DISP) == 1 && tx.is_writer_dropped(), "C02: dropping the writer wakes the dispatcher");
    tx.locked.write().writer_waker = Some(waker(W_WRITER));
    tx.mark_vsock_closed();
    assert!(wakes(W_WRITER) == 1, "C02: closing the connection wakes the blocked writer");
    assert!(tx.locked.read().vsock_closed && tx.locked.read().writer_waker.is_none(), "C03: writer sees the connection as closed");
    std::mem::forget(tx);
    kani::cover!(true, "end of harness reachable (assumptions satisfiable, no unconditional failure)");
}
}

// ---- truncate_front / grow --------------------------------------------------------------------

// @verif id=TX.trunc props=C19,C01,C10 tier=quick
// @functions UserTx::truncate_front, ringbuf Consumer::skip
// @bounds ring capacity 4 holding 3 symbolic bytes across the wrap point; truncate by any count: usize
// @asserts Ok <=> count <= occupancy: exactly the `count` oldest bytes are removed, the rest unchanged and in order; otherwise the internal-bug error (the dispatcher only passes acknowledged byte counts: C01.S1)
crate::verif_tier_b! {
#[kani::unwind(8)]
fn tx_truncate_front_any_count() {
    let (tx, wh, model) = make_tx_at::<4>(2, 3);
    let count: usize = kani::any();
    let r = tx.truncate_front(count);
    kani::cover!(r.is_ok() && count == 2, "partial truncate");
    match &r {
        Ok(()) => {
            assert!(count <= 3, "C19: cannot remove more than is buffered");
            assert!(occupancy(&tx) == 3 - count, "C19: acknowledged bytes free exactly that much space");
            let i: usize = kani::any();
            if i < 3 - count {
                assert!(ring_byte(&tx, i) == model[count + i], "C01: unacknowledged bytes keep their content and order");
            }
        }
        Err(_) => assert!(count > 3, "C10: truncate fails only for an impossible count"),
    }
    std::mem::forget(r);
    std::mem::forget(wh);
    std::mem::forget(tx);
}
}

/// Allocation-size concretisation for `grow` (DESIGN §2.2 shape rule): CBMC cannot constant-fold the
/// ring capacity read back through `Arc<SharedRb>`, so `RingBuf::new(new_cap)` would allocate a
/// symbolic-size object (measured: > 12 GB). The stub asserts that the requested capacity equals the
/// value the harness expects and then allocates exactly that (concrete) size; behaviour is unchanged
/// whenever the assertion holds.
pub static mut EXPECT_NEW_CAP: usize = 0;
pub fn stub_heap_new<T>(capacity: usize) -> ringbuf::storage::Heap<T> {
    let n = unsafe { EXPECT_NEW_CAP };
    assert!(capacity == n, "C19: growth requests min(2*capacity, max) bytes");
    let mut data = Vec::<std::mem::MaybeUninit<T>>::with_capacity(n);
    unsafe { data.set_len(n) };
    ringbuf::storage::Heap::from(data.into_boxed_slice())
}

fn grow_step(max: usize, check_followup_write: bool) {
    // content m0 m1 m2 laid out physically at [2, 3, 0] (wrapped)
    let (tx, wh, model) = make_tx_at::<4>(2, 3);
    std::mem::forget(wh);
    unsafe { EXPECT_NEW_CAP = core::cmp::min(8, max) };
    let r = tx.grow(NonZeroUsize::new(max).unwrap());
    let cap_after = tx.consumer.lock().capacity().get();
    match r {
        None => assert!(max <= 4 && cap_after == 4, "C19: no growth at or above the maximum"),
        Some(c) => {
            assert!(max > 4 && c == core::cmp::min(8, max) && cap_after == c, "C19: growth doubles up to the configured maximum");
        }
    }
    assert!(cap_after <= core::cmp::max(4, max), "C19: the buffer never exceeds the larger of its initial and maximum size");
    assert!(occupancy(&tx) == 3, "C19: growing neither loses nor duplicates bytes");
    {
        use ringbuf::wrap::Wrap;
        let same = std::ptr::eq(tx.producer.lock().rb(), tx.consumer.lock().rb());
        assert!(same, "C19: after a growth step writer and dispatcher still share ONE ring (later writes are not lost)");
    }
    if !check_followup_write {
        let i: usize = kani::any();
        if i < 3 {
            assert!(ring_byte(&tx, i) == model[i], "C19: growing keeps the bytes in order");
        }
    } else {
        // the producer half was swapped too: a following write lands behind the old content
        let extra: u8 = kani::any();
        assert!(tx.producer.lock().push_slice(&[extra]) == 1, "C19: grown buffer accepts more");
        assert!(occupancy(&tx) == 4 && ring_byte(&tx, 3) == extra, "C01: bytes written after a growth step follow the old content");
    }
    std::mem::forget(tx);
}

// @verif id=TX.grow.a props=C19,C01 tier=quick timeout=900
// @functions UserTx::grow
// @bounds ring capacity 4 holding 3 symbolic bytes across the wrap point (read index 2); max_size = 16 (doubling to 8)
// @asserts new capacity == min(2*cap, max) > cap; every buffered byte survives in order (checked at an arbitrary index); occupancy unchanged; capacity <= max(initial, max)
crate::verif_tier_b! {
#[kani::stub(ringbuf::storage::Heap::new, stub_heap_new)]
#[kani::unwind(10)]
fn tx_grow_doubles() {
    grow_step(16, false);
    kani::cover!(true, "end of harness reachable (assumptions satisfiable, no unconditional failure)");
}
}

// @verif id=TX.grow.b props=C19,C01 tier=quick timeout=900
// @functions UserTx::grow
// @bounds as TX.grow.a with max_size = 6 (growth clamped to the maximum)
// @asserts new capacity == 6; content and order preserved
crate::verif_tier_b! {
#[kani::stub(ringbuf::storage::Heap::new, stub_heap_new)]
#[kani::unwind(10)]
fn tx_grow_clamped_to_max() {
    grow_step(6, false);
    kani::cover!(true, "end of harness reachable (assumptions satisfiable, no unconditional failure)");
}
}

// @verif id=TX.grow.c props=C19 tier=quick
// @functions UserTx::grow
// @bounds as TX.grow.a with max_size in {3, 4} (at or below the current capacity)
// @asserts None; capacity, occupancy and content unchanged
crate::verif_tier_b! {
#[kani::stub(ringbuf::storage::Heap::new, stub_heap_new)]
#[kani::unwind(10)]
fn tx_grow_at_maximum_is_noop() {
    if kani::any() {
        grow_step(3, false);
    } else {
        grow_step(4, false);
    }
    kani::cover!(true, "end of harness reachable (assumptions satisfiable, no unconditional failure)");
}
}

/// Accessor for other harness modules (the flag is private to stream_tx.rs).
pub fn verif_vsock_closed(tx: &UserTx) -> bool {
    tx.locked.read().vsock_closed
}
