//! C16 — RTO estimator: one inductive step from an arbitrary valid state (DESIGN §3 C16).
#![allow(unused_imports)]
use super::*;

// The property fixes these numbers (200 ms, 60 s, clock granularity); the oracle does not read
// them from the code.

/// Quick bound on srtt / rttvar / sample: 2^15 s (~9 h); thorough: 2^20 s (~12 days).
const CAP_QUICK_S: u64 = 1u64 << 15;
const CAP_THOROUGH_S: u64 = 1u64 << 20;

const MIN_RTO: Duration = Duration::from_millis(200);
const MAX_RTO: Duration = Duration::from_secs(60);
const GRANULARITY: Duration = Duration::from_millis(10);

/// Any Duration <= cap_s seconds, at nanosecond granularity (built from its two fields: no division).
fn any_dur(cap_s: u64) -> Duration {
    let secs: u64 = kani::any();
    let nanos: u32 = kani::any();
    kani::assume(secs <= cap_s && nanos < 1_000_000_000);
    kani::assume(secs < cap_s || nanos == 0);
    Duration::new(secs, nanos)
}

fn any_rto() -> Duration {
    let rto = any_dur(60);
    kani::assume(rto >= MIN_RTO);
    rto
}

fn any_state(cap_s: u64) -> RttEstimator {
    let rto = any_rto();
    let state = if kani::any() {
        RttState::Initial { rto }
    } else {
        RttState::Subsequent { rto, srtt: any_dur(cap_s), rttvar: any_dur(cap_s) }
    };
    RttEstimator {
        state,
        // the field exists only in test builds, i.e. in native concrete playback (cfg(kani) + cfg(test))
        #[cfg(test)]
        forced_timeout: None,
    }
}

fn inv(e: &RttEstimator, cap_s: u64) -> bool {
    let cap = Duration::from_secs(cap_s);
    match e.state {
        RttState::Initial { rto } => rto >= MIN_RTO && rto <= MAX_RTO,
        RttState::Subsequent { rto, srtt, rttvar } => {
            rto >= MIN_RTO && rto <= MAX_RTO && srtt <= cap && rttvar <= cap
        }
    }
}

/// The property's formula, evaluated with std's Duration arithmetic on the POST-state fields
/// (same operation structure as any sane implementation: the solver compares like with like).
fn rto_formula(srtt: Duration, rttvar: Duration) -> Duration {
    let x = srtt + core::cmp::max(rttvar * 4, GRANULARITY);
    if x < MIN_RTO { MIN_RTO } else if x > MAX_RTO { MAX_RTO } else { x }
}

fn sample_step(cap_s: u64) {
    let mut e = any_state(cap_s);
    let pre = e;
    let r = any_dur(cap_s);
    e.sample(r);
    match (pre.state, e.state) {
        (RttState::Initial { .. }, RttState::Subsequent { rto, srtt, rttvar }) => {
            kani::cover!(rto > MIN_RTO && rto < MAX_RTO, "first sample gives an unclamped RTO");
            assert!(srtt == r, "C16: after the first sample SRTT is that sample (between smallest and largest seen)");
            assert!(rto == rto_formula(srtt, rttvar), "C16: RTO == clamp(SRTT + max(4*RTTVAR, granularity)) after the first sample");
        }
        (RttState::Subsequent { srtt: s0, rttvar: v0, .. }, RttState::Subsequent { rto, srtt, rttvar }) => {
            kani::cover!(rto > MIN_RTO && rto < MAX_RTO && r != s0, "later sample gives an unclamped RTO");
            let lo = core::cmp::min(s0, r);
            let hi = core::cmp::max(s0, r);
            assert!(srtt >= lo && srtt <= hi, "C16: SRTT stays between the previous SRTT and the sample");
            // "its variance": whatever the smoothing gain, the new RTTVAR is a mix of the old RTTVAR and the new
            // deviation |SRTT - R| (2 ns slack for the two integer divisions)
            let dev = hi - lo;
            let vlo = core::cmp::min(v0, dev);
            let vhi = core::cmp::max(v0, dev);
            assert!(rttvar + Duration::from_nanos(2) >= vlo && rttvar <= vhi, "C16: RTTVAR moves between its previous value and the new deviation |SRTT - sample|");
            assert!(rto == rto_formula(srtt, rttvar), "C16: RTO == clamp(SRTT + max(4*RTTVAR, granularity)) after a sample");
        }
        _ => assert!(false, "C16: a sample always leaves the estimator in the measured state"),
    }
    assert!(inv(&e, cap_s), "C16: RTO within 200 ms..60 s and state bounded after a sample");
    assert!(e.retransmission_timeout() >= MIN_RTO && e.retransmission_timeout() <= MAX_RTO,
        "C16: retransmission_timeout() within 200 ms..60 s");
}

// @verif id=C16.1 props=C16,C06,C10 tier=quick
// @functions RttEstimator::sample, rtte::calc_rto, rtte::clamp, rtte::duration_abs_diff, RttEstimator::retransmission_timeout
// @bounds one step from EVERY estimator state with 200ms <= rto <= 60s and srtt, rttvar <= 2^15 s; every sample 0 ns ..= 2^15 s (nanosecond granularity)
// @asserts invariant preserved (200ms <= RTO <= 60s); RTO == clamp(SRTT + max(4*RTTVAR, 10ms)) on the post-state; SRTT' between previous SRTT and the sample (by induction: between the smallest and largest sample seen); RTTVAR' between the previous RTTVAR and the new deviation |SRTT - sample| (gain-independent form of 'its variance'); first sample: SRTT = sample; no panic/overflow
// @assumes state satisfies inv_rtte (200ms<=rto<=60s; srtt,rttvar<=CAP); sample <= CAP
// @outside samples or smoothed values above 2^15 s (thorough: 2^20 s); the exact smoothing gains (alpha, beta) are not part of the property and are not asserted
#[kani::proof]
fn c16_1_sample_step_quick() {
    sample_step(CAP_QUICK_S);
    kani::cover!(true, "end of harness reachable (assumptions satisfiable, no unconditional failure)");
}

// @verif id=C16.1t props=C16,C06 tier=thorough timeout=3000
// @functions RttEstimator::sample, rtte::calc_rto, rtte::clamp, rtte::duration_abs_diff
// @bounds as C16.1 with CAP = 2^20 s (~12 days)
// @asserts as C16.1
// @assumes state satisfies inv_rtte; sample <= CAP
#[kani::proof]
fn c16_1t_sample_step_thorough() {
    sample_step(CAP_THOROUGH_S);
    kani::cover!(true, "end of harness reachable (assumptions satisfiable, no unconditional failure)");
}

// @verif id=C16.2 props=C16,C06 tier=quick
// @functions RttEstimator::on_rto_timeout, rtte::clamp, RttEstimator::sample
// @bounds one timeout from EVERY valid state (CAP 2^15 s), followed by one sample from the backed-off state compared with the same sample applied to the original state
// @asserts RTO' == min(2*RTO, 60s) >= RTO; SRTT/RTTVAR untouched; the next sample yields the same RTO and SRTT whether or not the timeout happened (returns to the sample-derived value)
// @assumes state satisfies inv_rtte
#[kani::proof]
fn c16_2_timeout_doubles_and_sample_restores() {
    let cap = CAP_QUICK_S;
    let mut e = any_state(cap);
    let pre = e;
    e.on_rto_timeout();
    let rto0 = pre.retransmission_timeout();
    let rto1 = e.retransmission_timeout();
    kani::cover!(rto1 == rto0 * 2 && rto1 < MAX_RTO, "doubling below the cap reachable");
    kani::cover!(rto1 == MAX_RTO && rto0 < MAX_RTO, "cap reachable");
    assert!(rto1 == core::cmp::min(rto0 * 2, MAX_RTO), "C16: timeout doubles the RTO up to the 60 s cap");
    assert!(rto1 >= rto0, "C16: timeout never decreases the RTO");
    assert!(inv(&e, cap), "C16: invariant after timeout");
    match (pre.state, e.state) {
        (RttState::Initial { .. }, RttState::Initial { .. }) => {}
        (RttState::Subsequent { srtt: s0, rttvar: v0, .. }, RttState::Subsequent { srtt, rttvar, .. }) => {
            assert!(s0 == srtt && v0 == rttvar, "C16: timeout leaves SRTT and RTTVAR alone");
        }
        _ => assert!(false, "C16: timeout does not change the estimator phase"),
    }
    // "returns to the sample-derived value on the next sample"
    let r = any_dur(cap);
    let mut a = pre;
    let mut b = e;
    a.sample(r);
    b.sample(r);
    assert!(a.retransmission_timeout() == b.retransmission_timeout(),
        "C16: the RTO after a sample does not depend on earlier back-off");
    assert!(a.roundtrip_time() == b.roundtrip_time(), "C16: SRTT after a sample does not depend on earlier back-off");
}

// @verif id=C16.3 props=C16 tier=quick
// @functions RttEstimator::default, RttEstimator::on_rto_timeout, RttEstimator::retransmission_timeout
// @bounds base case: the constructor's state; then 9 successive timeouts (enough to reach the cap from the initial value)
// @asserts default satisfies the invariant; successive timeouts double until 60 s and stay there
#[kani::proof]
#[kani::unwind(11)]
fn c16_3_init_and_backoff_chain() {
    let mut e = RttEstimator::default();
    assert!(inv(&e, CAP_QUICK_S), "C16: constructor satisfies the invariant");
    let mut expect = e.retransmission_timeout();
    let mut i = 0;
    while i < 9 {
        e.on_rto_timeout();
        expect = core::cmp::min(expect * 2, MAX_RTO);
        assert!(e.retransmission_timeout() == expect, "C16: successive timeouts double until the cap");
        i += 1;
    }
    assert!(e.retransmission_timeout() == MAX_RTO, "C16: back-off saturates at 60 s");
    kani::cover!(true, "end of harness reachable (assumptions satisfiable, no unconditional failure)");
}
