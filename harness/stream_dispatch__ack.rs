//! C07 — ACK policy of the dispatcher (`maybe_send_ack`, `send_ack`, `rx_window`): tier C.
// @requires stream_dispatch__vs.rs
#![allow(unused_imports, dead_code, static_mut_refs)]
use super::verif_stream_dispatch__vs::*;
use super::*;
use std::task::Context;

// @verif id=VS.ack props=C07,C04,C11,C09 tier=quick timeout=900
// @functions VirtualSocket::maybe_send_ack, VirtualSocket::send_ack, VirtualSocket::send_control_packet, VirtualSocket::outgoing_header, VirtualSocket::rx_window, VirtualSocket::immediate_ack_to_transmit, VirtualSocket::should_send_window_update, VirtualSocket::ack_to_transmit, UtpHeader::serialize, UtpSocket::try_poll_send_to
// @bounds established socket (MSS 16, receive buffer 48); consumed_but_unacked_bytes ANY usize; last consumed number 1, last ACK sent 0..=3 behind it (i.e. 1, 0, 65535, 65534: across the 16-bit wrap); last advertised window zero or not; delayed-ACK timer idle or armed anywhere within +-60 ms of now; transport ready or blocked
// @asserts >= 2*MSS unacknowledged bytes, a re-opened (or newly closed) window, or an expired delayed-ACK timer with something to acknowledge => exactly one ST_STATE goes out NOW carrying ack_nr == last consumed, the honest window, our connection id, version 1; bookkeeping reset; otherwise nothing is sent and (if bytes are pending) the delayed-ACK timer is armed no later than now + 40 ms and never postponed; nothing pending => silence; blocked transport => nothing recorded, nothing reset
// @assumes reassembly queue empty (no SACK to attach); state Established
// @unwindset make_tx_at=9,__vs::record=37
crate::verif_tier_c! {
#[kani::unwind(5)]
fn vs_maybe_send_ack_policy() {
    let mut t = make_vsock(VirtualSocketState::Established, VsConfig::default());
    let consumed: usize = kani::any();
    let behind: u16 = kani::any();
    kani::assume(behind <= 3);
    let lsw_zero: bool = kani::any();
    let timer_rel_ms: i8 = kani::any();
    kani::assume(timer_rel_ms >= -60 && timer_rel_ms <= 60);
    let armed: bool = kani::any();
    let pending: bool = kani::any();
    t.vsock.consumed_but_unacked_bytes = consumed;
    // the receive position is 1 (just past the 16-bit wrap); the last ACK sent is 1, 0, 65535 or 65534
    const POS: u16 = PEER_LAST.wrapping_add(2);
    t.vsock.last_consumed_remote_seq_nr = SeqNr(POS);
    t.vsock.last_sent_ack_nr = SeqNr(POS.wrapping_sub(behind));
    t.vsock.last_sent_window = if lsw_zero { 0 } else { 48 };
    let deadline = now_at((T0_US as i64 + timer_rel_ms as i64 * 1000) as u64);
    if armed {
        t.vsock.timers.ack_delay_timer = Timer::Armed { expires_at: deadline };
    }
    unsafe { TX_MODE = if pending { 1 } else { 0 } };
    let w = cx_waker();
    let mut cx = Context::from_waker(&w);
    let r = t.vsock.maybe_send_ack(&mut cx);
    let sent = matches!(r, Ok(true));
    let ok = r.is_ok();
    std::mem::forget(r);
    assert!(ok, "C10: the ACK path does not fail");

    let now = now_at(T0_US);
    let immediate = consumed >= 32;
    let window_update = lsw_zero; // current window is 48 (> 0): changed iff the last advertised one was 0
    let timer_fired = armed && deadline <= now;
    let must_ack = immediate || window_update || (timer_fired && behind > 0);
    kani::cover!(immediate && !pending, "immediate ACK");
    kani::cover!(!must_ack && consumed > 0 && !armed, "delayed ACK armed");
    kani::cover!(!must_ack && consumed == 0 && !timer_fired, "silence");

    if must_ack && !pending {
        assert!(sent && sent_n() == 1, "C07: an ACK that is due is sent immediately, exactly once");
        let (h, n) = sent_header(0).unwrap();
        assert!(h.htype == Type::ST_STATE && n == sent_total(0), "C11: an ACK is a bare state packet");
        assert!(h.ack_nr == SeqNr(POS), "C04: the acknowledgement number is the last in-order sequence number received");
        assert!(h.connection_id == SeqNr(CONN_ID_SEND), "C11: outgoing packets carry the connection id owed to the peer");
        assert!(h.wnd_size == 48, "C04: the advertised window is the free receive space (whole MSS multiples)");
        assert!(h.seq_nr == SeqNr(OUR_SEQ), "C17: a state packet does not consume a sequence number");
        assert!(t.vsock.consumed_but_unacked_bytes == 0 && t.vsock.last_sent_ack_nr == SeqNr(POS) && t.vsock.last_sent_window == 48
            && t.vsock.timers.ack_delay_timer == Timer::Idle, "C07: sending an ACK resets the pending-ACK bookkeeping");
    } else {
        assert!(!sent && sent_n() == 0, "C07: nothing new to acknowledge and nothing due => the endpoint stays silent");
        if !pending {
            assert!(t.vsock.last_sent_ack_nr == SeqNr(POS.wrapping_sub(behind)), "C04: no ACK recorded as sent");
        }
        if !must_ack && !timer_fired && consumed > 0 {
            match t.vsock.timers.ack_delay_timer {
                Timer::Armed { expires_at } => {
                    assert!(expires_at <= now + Duration::from_millis(40), "C07: pending bytes are acknowledged within the 40 ms delayed-ACK interval");
                    if armed {
                        assert!(expires_at <= deadline, "C07: a running delayed-ACK deadline is never postponed by later packets");
                    }
                }
                Timer::Idle => assert!(false, "C07: consumed-but-unacknowledged bytes always have a delayed-ACK deadline"),
            }
        }
        if !must_ack && timer_fired {
            assert!(t.vsock.timers.ack_delay_timer == Timer::Idle, "C07: an expired delayed-ACK timer with nothing to acknowledge is switched off");
        }
    }
    if pending {
        assert!(t.vsock.consumed_but_unacked_bytes == consumed || !must_ack, "C07: a blocked transport does not lose the pending ACK");
    }
    finish(t);
}
}
