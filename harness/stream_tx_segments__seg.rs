//! TX segment bookkeeping (`Segments`): one operation from an arbitrary valid pre-state written
//! directly into the fields. Shapes (segment count N) are concrete per harness instance; sizes, flags,
//! send status, sequence numbers, offsets, instants, ACK numbers and SACK bits are symbolic.
//! Serves C01.S1/S2, C05.1, C06.3/4, C09.2, C10.2, C14.5 (DESIGN §3).
#![allow(unused_imports, dead_code)]
use super::*;
use crate::raw::selective_ack::SelectiveAck;
use crate::verif_lib__support::{at_ms, base};

pub const MAX_SEG: usize = 1500;

#[derive(Clone, Copy)]
pub struct GhostSeg {
    pub size: usize,
    pub abs: u64,
    pub delivered: bool,
    pub probe: bool,
    pub sent_kind: u8, // 0 NotSent, 1 SentTime, 2 Retransmitted
    pub count: usize,
    pub ts_ms: u32,
}

fn sent_of(g: &GhostSeg) -> SentStatus {
    match g.sent_kind {
        0 => SentStatus::NotSent,
        1 => SentStatus::SentTime(at_ms(g.ts_ms as u64)),
        _ => SentStatus::Retransmitted { count: g.count, last_send_ts: at_ms(g.ts_ms as u64) },
    }
}

/// An arbitrary `Segments` value with exactly N segments satisfying the representation invariant,
/// plus its ghost description.
pub fn any_segments<const N: usize>() -> (Segments, [GhostSeg; N]) {
    any_segments_at::<N>(kani::any())
}
pub fn any_segments_at<const N: usize>(snd_una: u16) -> (Segments, [GhostSeg; N]) {
    let removed_offset: u64 = kani::any();
    kani::assume(removed_offset <= 1 << 40);
    let mut ghost = [GhostSeg { size: 0, abs: 0, delivered: false, probe: false, sent_kind: 0, count: 0, ts_ms: 0 }; N];
    let mut v: Vec<Segment> = Vec::with_capacity(N);
    let mut off = removed_offset;
    let mut total = 0usize;
    let mut i = 0;
    while i < N {
        let size: usize = kani::any();
        kani::assume(size >= 1 && size <= MAX_SEG);
        let delivered: bool = if i == 0 { false } else { kani::any() };
        let sent_kind: u8 = kani::any();
        kani::assume(sent_kind <= 2);
        let count: usize = kani::any();
        kani::assume(count >= 1 && count <= 8);
        let ts_ms: u32 = kani::any();
        kani::assume(ts_ms <= 1 << 24);
        let probe: bool = kani::any();
        // a delivered segment was sent at least once
        kani::assume(!delivered || sent_kind != 0);
        let g = GhostSeg { size, abs: off, delivered, probe, sent_kind, count, ts_ms };
        ghost[i] = g;
        v.push(Segment {
            payload_size: size,
            payload_offset_absolute: off,
            is_delivered: delivered,
            sent: sent_of(&g),
            is_mtu_probe: probe,
            is_lost: kani::any(),
            is_expired: kani::any(),
            has_sacks_after_it: kani::any(),
        });
        off += size as u64;
        total += size;
        i += 1;
    }
    let sack_depth: usize = kani::any();
    kani::assume(sack_depth <= 2048);
    let s = Segments {
        segments: VecDeque::from(v),
        len_bytes: total,
        offset: off,
        removed_offset,
        sack_depth,
        last_sack_empty: kani::any(),
        snd_una: SeqNr(snd_una),
    };
    (s, ghost)
}

/// N never-sent segments of symbolic sizes starting at `snd_una` (for harnesses of other components
/// that only need a non-empty queue: `calc_pipe` skips never-sent segments).
pub fn unsent_segments<const N: usize>(snd_una: u16) -> Segments {
    let mut v: Vec<Segment> = Vec::with_capacity(N);
    let mut off = 0u64;
    let mut total = 0usize;
    let mut i = 0;
    while i < N {
        let size: usize = kani::any();
        kani::assume(size >= 1 && size <= MAX_SEG);
        v.push(Segment { payload_size: size, payload_offset_absolute: off, is_delivered: false, sent: SentStatus::NotSent,
            is_mtu_probe: false, is_lost: false, is_expired: false, has_sacks_after_it: false });
        off += size as u64;
        total += size;
        i += 1;
    }
    Segments { segments: VecDeque::from(v), len_bytes: total, offset: off, removed_offset: 0, sack_depth: 0, last_sack_empty: false, snd_una: SeqNr(snd_una) }
}

/// Representation invariant: offsets chain contiguously from removed_offset, byte counters agree,
/// the front segment is not delivered.
pub fn inv(s: &Segments) -> bool {
    let mut sum = 0usize;
    let mut off = s.removed_offset;
    let mut ok = true;
    let mut i = 0;
    let n = s.segments.len();
    while i < n {
        let seg = &s.segments[i];
        ok &= seg.payload_offset_absolute == off;
        off += seg.payload_size as u64;
        sum += seg.payload_size;
        i += 1;
    }
    ok && sum == s.len_bytes && off == s.offset && (n == 0 || !s.segments[0].is_delivered)
}

fn sack_from(bits: u16, one_byte: bool) -> SelectiveAck {
    if one_byte {
        SelectiveAck::deserialize(&[bits as u8])
    } else {
        SelectiveAck::deserialize(&[bits as u8, (bits >> 8) as u8, 0, 0, 0, 0, 0, 0])
    }
}

pub struct AckFacts {
    pub k: usize,
    pub newly_sacked: usize,
    pub d: i32,
}

/// Which ACK numbers an instance covers.
pub enum AckSel {
    /// every snd_una: u16 and every ack_nr: u16
    Any,
    /// concrete snd_una and concrete relative offset d = ack_nr - snd_una (SACK variants: keeps the
    /// bit-iterator's start position concrete, DESIGN §2.2 shape rule)
    At(u16, i16),
}

/// remove_up_to_ack from an arbitrary N-segment state.
fn ack_step<const N: usize>(with_sack: bool, one_byte: bool, sel: AckSel) -> AckFacts {
    let (mut s, ghost) = match sel {
        AckSel::Any => any_segments::<N>(),
        AckSel::At(b, _) => any_segments_at::<N>(b),
    };
    let snd_una = s.snd_una.0;
    let ack_nr: u16 = match sel {
        AckSel::Any => kani::any(),
        AckSel::At(b, d) => b.wrapping_add(d as u16),
    };
    let mut hdr = UtpHeader::default();
    hdr.ack_nr = SeqNr(ack_nr);
    let bits: u16 = kani::any();
    if with_sack {
        hdr.extensions.selective_ack = Some(sack_from(bits, one_byte));
    }
    let bits = if one_byte { bits & 0xff } else { bits };
    let now = at_ms(kani::any::<u32>() as u64);
    let pre_len = s.len_bytes;
    let pre_removed = s.removed_offset;
    let pre_offset = s.offset;

    let res = s.remove_up_to_ack(now, &hdr);

    // d = signed modular distance ack_nr - snd_una
    let d = ack_nr.wrapping_sub(snd_una) as i16 as i32;
    let k = res.acked_segments_count;

    assert!(inv(&s), "C01: TX accounting invariant holds after an ACK");
    assert!(k <= N && s.segments.len() == N - k, "C01: removed count matches the queue");
    assert!(s.snd_una.0 == snd_una.wrapping_add(k as u16), "C01: snd_una advances by exactly the removed segments");
    // bytes: exactly the removed prefix
    let mut sum = 0usize;
    let mut i = 0;
    while i < N {
        if i < k {
            sum += ghost[i].size;
        }
        i += 1;
    }
    assert!(res.acked_bytes == sum, "C01: acked_bytes is the total size of the removed prefix");
    assert!(s.len_bytes == pre_len - sum, "C01: len_bytes drops by the acknowledged bytes");
    assert!(s.removed_offset == pre_removed + sum as u64, "C01: removed_offset advances by the acknowledged bytes");
    assert!(s.offset == pre_offset, "C01: an ACK never moves the enqueue offset");

    // who may be removed / marked: only what the peer acknowledged
    if d >= -1024 && d <= 1024 {
        let cum: usize = if d >= 0 { core::cmp::min(d as usize + 1, N) } else { 0 };
        assert!(k >= cum, "C06: every cumulatively acknowledged segment leaves the queue");
        let mut j = 0;
        while j < N {
            // SACK bit for index j: seq = snd_una + j, bit = seq - (ack_nr + 2)
            let bit = j as i32 - d - 2;
            let sacked_now = with_sack && bit >= 0 && bit < 16 && (bits >> bit) & 1 == 1 && j >= cum && cum < N;
            if j >= k {
                // survivor: identity (sequence number), size and byte range are stable
                let seg = &s.segments[j - k];
                assert!(seg.payload_size == ghost[j].size && seg.payload_offset_absolute == ghost[j].abs,
                    "C01: a surviving sequence number keeps its byte range (stable seq->bytes map)");
                assert!(seg.is_delivered == (ghost[j].delivered || sacked_now),
                    "C04: a segment is marked delivered exactly when it already was or this SACK names it");
                assert!(seg.is_mtu_probe == ghost[j].probe, "C14: probe flag untouched by ACK processing");
            } else if j >= cum {
                // removed beyond the cumulative point: only as a delivered run
                assert!(ghost[j].delivered || sacked_now,
                    "C01: a segment past the cumulative ACK is removed only if delivered (SACKed)");
            }
            j += 1;
        }
        if !with_sack && d < 0 {
            assert!(k == 0, "C10: a stale ACK without SACK removes nothing");
        }
    }
    // Karn: an RTT sample never comes from a retransmitted or never-sent segment
    if res.new_rtt.is_some() {
        let mut any_first_tx = false;
        let mut j = 0;
        while j < N {
            any_first_tx |= ghost[j].sent_kind == 1;
            j += 1;
        }
        assert!(any_first_tx, "C06: RTT samples only from segments transmitted exactly once (Karn)");
    }
    std::mem::forget(s);
    AckFacts { k, newly_sacked: res.newly_sacked_segment_count, d }
}

// ---- remove_up_to_ack, no SACK, every ack_nr -------------------------------------------------

// @verif id=SEG.ack0 props=C01,C10 tier=quick
// @functions Segments::remove_up_to_ack, Segments::first_seq_nr
// @bounds N = 0 segments; every snd_una, every ack_nr: u16, no SACK
// @asserts nothing removed, invariant holds, no panic
#[kani::proof]
#[kani::unwind(4)]
fn seg_ack_n0() {
    let f = ack_step::<0>(false, false, AckSel::Any);
    assert!(f.k == 0, "C01: nothing to remove from an empty queue");
    kani::cover!(true, "end of harness reachable (assumptions satisfiable, no unconditional failure)");
}

// @verif id=SEG.ack1 props=C01,C06,C09,C10 tier=quick timeout=900
// @functions Segments::remove_up_to_ack, Segment::update_rtt, SeqNr::sub, utils::seq_nr_offset
// @bounds N = 1 segment (size 1..=1500, any send status, any flags), every snd_una: u16 (incl. wrap), EVERY ack_nr: u16, no SACK, any `now`
// @asserts invariant; acked_bytes == removed sizes == delta(len_bytes) == delta(removed_offset); snd_una advances by removed count; cumulatively acked segments leave; survivors keep size/offset/flags; stale ACK removes nothing; Karn
// @assumes representation invariant on the pre-state; removed_offset <= 2^40
#[kani::proof]
#[kani::unwind(4)]
fn seg_ack_n1_nosack_any_ack() {
    let f = ack_step::<1>(false, false, AckSel::Any);
    kani::cover!(f.k == 1, "whole queue acknowledged");
    kani::cover!(f.k == 0 && f.d < 0, "stale ACK");
}

// @verif id=SEG.ack2 props=C01,C06,C09,C10 tier=quick timeout=900
// @functions Segments::remove_up_to_ack, Segment::update_rtt
// @bounds N = 2 segments, every snd_una, EVERY ack_nr: u16, no SACK
// @asserts as SEG.ack1
// @assumes representation invariant on the pre-state
#[kani::proof]
#[kani::unwind(5)]
fn seg_ack_n2_nosack_any_ack() {
    let f = ack_step::<2>(false, false, AckSel::Any);
    kani::cover!(f.k == 2, "whole queue acknowledged");
    kani::cover!(f.k == 1, "partial cumulative ACK");
}

// @verif id=SEG.ack3 props=C01,C06,C09,C10 tier=quick timeout=900
// @functions Segments::remove_up_to_ack, Segment::update_rtt
// @bounds N = 3 segments, every snd_una, EVERY ack_nr: u16, no SACK
// @asserts as SEG.ack1
// @assumes representation invariant on the pre-state
#[kani::proof]
#[kani::unwind(6)]
fn seg_ack_n3_nosack_any_ack() {
    let f = ack_step::<3>(false, false, AckSel::Any);
    kani::cover!(f.k == 3, "whole queue acknowledged");
    kani::cover!(f.k == 2 && f.d == 0, "cumulative ACK of one segment also releases an already delivered successor");
}

// @verif id=SEG.ack5 props=C01,C06,C09,C10 tier=thorough timeout=3400 mem=14
// @functions Segments::remove_up_to_ack
// @bounds N = 5 segments, EVERY ack_nr: u16, no SACK
// @asserts as SEG.ack1
// @assumes representation invariant on the pre-state
#[kani::proof]
#[kani::unwind(8)]
fn seg_ack_n5_nosack_any_ack() {
    let f = ack_step::<5>(false, false, AckSel::Any);
    kani::cover!(f.k == 3, "partial cumulative ACK");
}

// ---- remove_up_to_ack with SACK --------------------------------------------------------------
// Shape-concrete instances: N, snd_una and the relative ACK offset d are concrete (snd_una = 65534 so
// that the queue straddles the 16-bit wrap); sizes, flags, send status, instants and SACK bits symbolic.

macro_rules! sack_instance {
    ($(#[$m:meta])* $name:ident, $n:expr, $base:expr, $d:expr, $one:expr) => {
        $(#[$m])*
        #[kani::proof]
        #[kani::unwind(6)]
        fn $name() {
            let f = ack_step::<$n>(true, $one, AckSel::At($base, $d));
            kani::cover!(f.newly_sacked > 0 || f.k > 0, "the ACK acknowledges something");
        }
    };
}

macro_rules! sack_instance_quiet {
    ($(#[$m:meta])* $name:ident, $n:expr, $base:expr, $d:expr, $one:expr) => {
        $(#[$m])*
        #[kani::proof]
        #[kani::unwind(6)]
        fn $name() {
            let f = ack_step::<$n>(true, $one, AckSel::At($base, $d));
            assert!(f.k == 0 && f.newly_sacked == 0, "C10: a far-stale SACK acknowledges nothing");
            kani::cover!(true, "end of harness reachable (assumptions satisfiable, no unconditional failure)");
        }
    };
}

// @verif id=SEG.sack3.dm2 props=C01,C04,C06,C09,C10 tier=quick timeout=900
// @functions Segments::remove_up_to_ack, SelectiveAck::iter, SelectiveAck::as_bitslice, SelectiveAck::len, Segment::update_rtt
// @bounds N = 3 segments at sequence numbers 65534, 65535, 0 (straddling the wrap); ack_nr = snd_una-2 (stale ACK whose SACK bit 0 names snd_una); 8-byte SACK with 16 arbitrary leading bits; sizes/flags/send status/now symbolic
// @asserts as SEG.ack1 plus: a survivor is marked delivered exactly when it already was or the SACK bit for its sequence number (bit i <-> ack_nr+2+i) is set; segments past the cumulative ACK are removed only as a delivered run
// @assumes representation invariant on the pre-state
// @unwindset bitvec=9
sack_instance!(seg_sack_n3_dm2, 3, 65534, -2, false);

// @verif id=SEG.sack3.dm1 props=C01,C04,C06,C09 tier=quick timeout=900
// @functions Segments::remove_up_to_ack, SelectiveAck::iter, SelectiveAck::as_bitslice
// @bounds as SEG.sack3.dm2 with ack_nr = snd_una-1 (duplicate ACK carrying SACK: the fast-retransmit case)
// @asserts as SEG.sack3.dm2
// @assumes representation invariant on the pre-state
// @unwindset bitvec=9
sack_instance!(seg_sack_n3_dm1, 3, 65534, -1, false);

// @verif id=SEG.sack3.d0 props=C01,C04,C06,C09 tier=quick timeout=900
// @functions Segments::remove_up_to_ack, SelectiveAck::iter, SelectiveAck::as_bitslice
// @bounds as SEG.sack3.dm2 with ack_nr = snd_una (cumulative ACK of one segment plus SACK)
// @asserts as SEG.sack3.dm2
// @assumes representation invariant on the pre-state
// @unwindset bitvec=9
sack_instance!(seg_sack_n3_d0, 3, 65534, 0, false);

// @verif id=SEG.sack3.dm1b props=C01,C04,C06 tier=quick timeout=900
// @functions Segments::remove_up_to_ack, SelectiveAck::deserialize, SelectiveAck::iter
// @bounds as SEG.sack3.dm1 with a ONE-byte SACK extension (8 arbitrary bits; seen in the wild) and snd_una = 100
// @asserts as SEG.sack3.dm2
// @assumes representation invariant on the pre-state
// @unwindset bitvec=9
sack_instance!(seg_sack_n3_dm1_onebyte, 3, 100, -1, true);

// @verif id=SEG.sack3.w props=C01,C04,C06,C09 tier=quick timeout=900
// @functions Segments::remove_up_to_ack, SelectiveAck::iter
// @bounds N = 3 segments at sequence numbers 0, 1, 2 with ack_nr = 65535 (duplicate ACK carrying SACK exactly at the 16-bit wrap: ack_nr + 2 wraps to 1)
// @asserts as SEG.sack3.dm2
// @assumes representation invariant on the pre-state
// @unwindset bitvec=9
sack_instance!(seg_sack_n3_dm1_at_wrap, 3, 0, -1, false);

// @verif id=SEG.sack3.dm70 props=C10,C01 tier=quick timeout=900
// @functions Segments::remove_up_to_ack, SelectiveAck::iter
// @bounds N = 3 segments at 65534, 65535, 0; a STALE ACK 70 sequence numbers behind snd_una carrying a SACK with 16 arbitrary leading bits (the SACK window ends before the first queued segment: hostile / very late datagram)
// @asserts no panic; nothing is removed or marked (every SACK bit names a sequence number below snd_una); invariant holds
// @assumes representation invariant on the pre-state
// @unwindset bitvec=70
sack_instance_quiet!(seg_sack_n3_far_stale, 3, 65534, -70, false);

// @verif id=SEG.sack3.d1 props=C01,C04,C06,C09 tier=thorough timeout=1800
// @functions Segments::remove_up_to_ack
// @bounds as SEG.sack3.dm2 with ack_nr = snd_una+1
// @asserts as SEG.sack3.dm2
// @assumes representation invariant on the pre-state
// @unwindset bitvec=9
sack_instance!(seg_sack_n3_d1, 3, 65534, 1, false);

// @verif id=SEG.sack3.dm3 props=C01,C04,C06,C09 tier=thorough timeout=1800
// @functions Segments::remove_up_to_ack
// @bounds as SEG.sack3.dm2 with ack_nr = snd_una-3
// @asserts as SEG.sack3.dm2
// @assumes representation invariant on the pre-state
// @unwindset bitvec=9
sack_instance!(seg_sack_n3_dm3, 3, 65534, -3, false);

// @verif id=SEG.sack4.dm1 props=C01,C04,C06,C09 tier=thorough timeout=3400 mem=14
// @functions Segments::remove_up_to_ack
// @bounds N = 4 segments at 65533..=0, ack_nr = snd_una-1, 8-byte SACK with 16 arbitrary leading bits
// @asserts as SEG.sack3.dm2
// @assumes representation invariant on the pre-state
// @unwindset bitvec=9
sack_instance!(seg_sack_n4_dm1, 4, 65533, -1, false);

// @verif id=SEG.sack2.d0 props=C01,C04,C06 tier=thorough timeout=1800
// @functions Segments::remove_up_to_ack
// @bounds N = 2 segments at 65535, 0; ack_nr = snd_una; 8-byte SACK
// @asserts as SEG.sack3.dm2
// @assumes representation invariant on the pre-state
// @unwindset bitvec=9
sack_instance!(seg_sack_n2_d0, 2, 65535, 0, false);

// ---- enqueue ---------------------------------------------------------------------------------

fn enqueue_step<const N: usize>() {
    let (mut s, ghost) = any_segments::<N>();
    let len: usize = kani::any();
    kani::assume(len >= 1 && len <= 65535);
    let probe: bool = kani::any();
    let (pre_off, pre_len, pre_una) = (s.offset, s.len_bytes, s.snd_una.0);
    let ok = s.enqueue(len, probe);
    assert!(ok, "C01: enqueue succeeds");
    assert!(inv(&s), "C01: TX accounting invariant holds after enqueue");
    assert!(s.segments.len() == N + 1 && s.snd_una.0 == pre_una, "C01: enqueue appends one segment");
    let last = &s.segments[N];
    assert!(last.payload_size == len && last.payload_offset_absolute == pre_off && !last.is_delivered
        && matches!(last.sent, SentStatus::NotSent) && last.is_mtu_probe == probe,
        "C01: the new segment covers exactly the next `len` bytes of the stream, unsent");
    assert!(s.offset == pre_off + len as u64 && s.len_bytes == pre_len + len, "C01: byte counters advance by len");
    let mut j = 0;
    while j < N {
        assert!(s.segments[j].payload_size == ghost[j].size && s.segments[j].payload_offset_absolute == ghost[j].abs,
            "C01: enqueue leaves existing segments alone");
        j += 1;
    }
    std::mem::forget(s);
}

// @verif id=SEG.enq props=C01 tier=quick
// @functions Segments::enqueue, Segments::new
// @bounds from every valid state with N in {0, 2} segments; any payload length 1..=65535; probe flag arbitrary; plus the constructor (base case)
// @asserts invariant; the new last segment covers exactly [offset, offset+len) and is unsent/undelivered; counters advance by len; existing segments untouched; Segments::new satisfies the invariant
// @assumes representation invariant on the pre-state
#[kani::proof]
#[kani::unwind(5)]
fn seg_enqueue() {
    let s0 = Segments::new(SeqNr(kani::any()));
    assert!(inv(&s0) && s0.is_empty() && s0.total_len_bytes() == 0 && s0.first_seq_nr().is_none(), "C01: constructor satisfies the invariant");
    std::mem::forget(s0);
    if kani::any() {
        enqueue_step::<0>();
    } else {
        enqueue_step::<2>();
    }
    kani::cover!(true, "end of harness reachable (assumptions satisfiable, no unconditional failure)");
}

// ---- MTU probe pops --------------------------------------------------------------------------

fn pop_probe_step<const N: usize>() -> bool {
    let (mut s, ghost) = any_segments::<N>();
    let seq: u16 = kani::any();
    let pre_una = s.snd_una.0;
    let (pre_len, pre_off) = (s.len_bytes, s.offset);
    let last_seq = pre_una.wrapping_add(N as u16).wrapping_sub(1);
    let popped = s.pop_mtu_probe(SeqNr(seq));
    assert!(inv(&s), "C14: TX accounting invariant holds after pop_mtu_probe (the popped bytes must be re-segmentable)");
    if popped {
        assert!(N > 0, "C14: nothing to pop from an empty queue");
        let g = ghost[N - 1];
        assert!(g.probe && !g.delivered && seq == last_seq, "C14: only the newest segment, if an undelivered probe with that sequence number, is popped");
        assert!(s.segments.len() == N - 1, "C14: exactly one segment popped");
        assert!(s.len_bytes == pre_len - g.size && s.offset == pre_off - g.size as u64,
            "C01: popping a probe gives its bytes back for re-segmentation (offset and len_bytes restored)");
    } else {
        assert!(s.segments.len() == N && s.len_bytes == pre_len && s.offset == pre_off, "C14: a refused pop changes nothing");
        if N > 0 {
            let g = ghost[N - 1];
            assert!(!(g.probe && !g.delivered && seq == last_seq), "C14: an undelivered newest probe with the right number is popped");
        }
    }
    assert!(s.snd_una.0 == pre_una, "C14: pop does not move snd_una");
    let mut j = 0;
    while j + 1 < N {
        assert!(s.segments[j].payload_size == ghost[j].size && s.segments[j].payload_offset_absolute == ghost[j].abs,
            "C01: pop leaves earlier segments alone");
        j += 1;
    }
    std::mem::forget(s);
    popped
}

// @verif id=SEG.pop props=C14,C01 tier=quick
// @functions Segments::pop_mtu_probe
// @bounds from every valid state with N = 3 segments (and N = 0, 1 in SEG.pop01); every seq_nr argument: u16
// @asserts popped <=> newest segment is an undelivered probe carrying that sequence number; after a pop offset and len_bytes are restored to their value before the probe was enqueued (invariant holds), earlier segments untouched; refused pop changes nothing
// @assumes representation invariant on the pre-state
#[kani::proof]
#[kani::unwind(6)]
fn seg_pop_mtu_probe_n3() {
    let popped = pop_probe_step::<3>();
    kani::cover!(popped, "probe popped");
    kani::cover!(!popped, "pop refused");
}

// @verif id=SEG.pop01 props=C14,C01 tier=quick
// @functions Segments::pop_mtu_probe
// @bounds N = 0 and N = 1 segments; every seq_nr argument
// @asserts as SEG.pop (popping the only segment leaves an empty, consistent queue; an empty queue refuses)
// @assumes representation invariant on the pre-state
#[kani::proof]
#[kani::unwind(4)]
fn seg_pop_mtu_probe_n01() {
    if kani::any() {
        let popped = pop_probe_step::<0>();
        assert!(!popped, "C14: nothing to pop from an empty queue");
    } else {
        let popped = pop_probe_step::<1>();
        kani::cover!(popped, "only segment popped");
    }
}

fn pop_expired_step<const N: usize>() -> u8 {
    let (mut s, ghost) = any_segments::<N>();
    let timed_out: bool = kani::any();
    let max_rtx: usize = kani::any();
    kani::assume(max_rtx <= 8);
    let pre_una = s.snd_una.0;
    let (pre_len, pre_off) = (s.len_bytes, s.offset);
    let r = s.pop_expired_mtu_probe(timed_out, max_rtx);
    let code: u8 = match r { PopExpiredProbe::Expired { .. } => 2, PopExpiredProbe::NotExpired => 1, PopExpiredProbe::Empty => 0 };
    assert!(inv(&s), "C14: TX accounting invariant holds after pop_expired_mtu_probe");
    assert!(s.snd_una.0 == pre_una, "C14: expiry does not move snd_una");
    match r {
        PopExpiredProbe::Expired { rewind_to, payload_size } => {
            assert!(N > 0, "C14: nothing expires in an empty queue");
            let g = ghost[N - 1];
            let rc = if g.sent_kind == 2 { g.count } else { 0 };
            assert!(g.probe && !g.delivered && timed_out && rc >= max_rtx,
                "C14: only an undelivered newest probe that timed out after its allowed retransmissions expires");
            assert!(payload_size == g.size, "C14: reported size is the probe's");
            assert!(rewind_to.0 == pre_una.wrapping_add(N as u16).wrapping_sub(2), "C14: rewind target is the segment before the probe");
            assert!(s.segments.len() == N - 1 && s.len_bytes == pre_len - g.size && s.offset == pre_off - g.size as u64,
                "C01: an expired probe gives its bytes back for re-segmentation (offset and len_bytes restored)");
        }
        PopExpiredProbe::NotExpired => {
            assert!(N > 0 && ghost[N - 1].probe && !ghost[N - 1].delivered, "C14: NotExpired only for an outstanding newest probe");
            assert!(s.segments.len() == N && s.len_bytes == pre_len && s.offset == pre_off, "C14: nothing changes while the probe is outstanding");
        }
        PopExpiredProbe::Empty => {
            assert!(s.segments.len() == N && s.len_bytes == pre_len && s.offset == pre_off, "C14: nothing changes without an outstanding probe");
            if N > 0 {
                let g = ghost[N - 1];
                assert!(!g.probe || g.delivered, "C14: an outstanding (undelivered) newest probe is never reported as absent");
            }
        }
    }
    std::mem::forget(s);
    code
}

// @verif id=SEG.popx props=C14,C01 tier=quick
// @functions Segments::pop_expired_mtu_probe, Segment::retransmit_count
// @bounds from every valid state with N = 3 (N = 0, 1 in SEG.popx01); retransmit_timed_out arbitrary; max_probe_retransmissions 0..=8
// @asserts Expired <=> newest segment is an undelivered probe, the retransmit timer fired and its retransmit count reached the limit; then offset/len_bytes are restored, rewind_to is the previous sequence number, size reported; NotExpired exactly while an undelivered probe is newest (so nothing is enqueued behind it); Empty otherwise; state unchanged unless Expired
// @assumes representation invariant on the pre-state
#[kani::proof]
#[kani::unwind(6)]
fn seg_pop_expired_mtu_probe_n3() {
    let c = pop_expired_step::<3>();
    kani::cover!(c == 2, "expired probe popped");
    kani::cover!(c == 1, "probe still outstanding");
    kani::cover!(c == 0, "no outstanding probe");
}

// @verif id=SEG.popx01 props=C14,C01 tier=quick
// @functions Segments::pop_expired_mtu_probe
// @bounds N = 0 and N = 1
// @asserts as SEG.popx
// @assumes representation invariant on the pre-state
#[kani::proof]
#[kani::unwind(4)]
fn seg_pop_expired_mtu_probe_n01() {
    if kani::any() {
        let c = pop_expired_step::<0>();
        assert!(c == 0, "C14: an empty queue has no probe");
    } else {
        let c = pop_expired_step::<1>();
        kani::cover!(c == 2, "only segment expired");
    }
}

// @verif id=SEG.popx.sent props=C01 tier=quick
// @functions Segments::pop_expired_mtu_probe
// @bounds from every valid state with N = 1 segment; retransmit_timed_out arbitrary; max_probe_retransmissions 0..=8
// @asserts a probe that expires (is popped for re-segmentation under the same sequence numbers) was never transmitted. FAILS on the pinned tree by design of the probe-expiry mechanism: KNOWN FINDING (known_findings.json): a transmitted probe may have been delivered with only its ACKs lost; re-splitting it then duplicates stream bytes at the receiver (native demonstration: findings/probe_expiry_resegmentation_demo.diff)
// @assumes representation invariant on the pre-state
#[kani::proof]
#[kani::unwind(4)]
fn seg_expired_probe_was_never_transmitted() {
    let (mut s, ghost) = any_segments::<1>();
    let timed_out: bool = kani::any();
    let max_rtx: usize = kani::any();
    kani::assume(max_rtx <= 8);
    let r = s.pop_expired_mtu_probe(timed_out, max_rtx);
    kani::cover!(matches!(r, PopExpiredProbe::Expired { .. }), "probe expired");
    if let PopExpiredProbe::Expired { .. } = r {
        assert!(ghost[0].sent_kind == 0, "C01: a sequence number that was already transmitted is never re-segmented (an expired probe may have been delivered with only its ACKs lost)");
    }
    std::mem::forget(s);
}

// ---- flight size and send iteration ----------------------------------------------------------

// @verif id=SEG.flight props=C05,C09,C10 tier=quick
// @functions Segments::calc_flight_size
// @bounds N = 3 segments, every snd_una, EVERY last_sent_seq_nr: u16
// @asserts within the wrap tolerance: flight == sum of undelivered sizes among the first (last_sent - snd_una + 1) segments, 0 if last_sent precedes snd_una; always <= len_bytes; no panic for any argument
// @assumes representation invariant on the pre-state
#[kani::proof]
#[kani::unwind(6)]
fn seg_flight_size_n3() {
    const N: usize = 3;
    let (s, ghost) = any_segments::<N>();
    let last_sent: u16 = kani::any();
    let f = s.calc_flight_size(SeqNr(last_sent));
    let d = last_sent.wrapping_sub(s.snd_una.0) as i16 as i32;
    assert!(f <= s.len_bytes, "C05: flight size never exceeds the queued bytes");
    if d >= -1024 && d <= 1024 {
        let take = if d + 1 > 0 { (d + 1) as usize } else { 0 };
        let mut want = 0usize;
        let mut j = 0;
        while j < N {
            if j < take && !ghost[j].delivered {
                want += ghost[j].size;
            }
            j += 1;
        }
        kani::cover!(take == 2 && ghost[1].delivered, "delivered segment excluded from flight");
        assert!(f == want, "C05: flight size is the undelivered payload among segments sent so far");
    }
    std::mem::forget(s);
}

// @verif id=SEG.iter props=C01,C06,C09 tier=quick timeout=900
// @functions Segments::iter_mut_for_sending, SegmentForSending::{seq_nr, payload_offset, payload_size, is_delivered, on_sent, send_count, retransmit_count}
// @bounds N = 3 segments, every snd_una, start = None or Some(any u16); the iterator is drained (<= 3 items) and on_sent applied to the first item
// @asserts yields exactly the undelivered segments with index >= max(start - snd_una, 0) (within tolerance), in order; each item's seq_nr == snd_una + index, payload_offset == bytes queued before it (its position in the send ring), payload_size its size; a delivered (acknowledged) segment is never yielded; on_sent moves NotSent->SentTime->Retransmitted{1}->Retransmitted{n+1}
// @assumes representation invariant on the pre-state
#[kani::proof]
#[kani::unwind(6)]
fn seg_iter_for_sending_n3() {
    const N: usize = 3;
    let (mut s, ghost) = any_segments::<N>();
    let snd_una = s.snd_una.0;
    let has_start: bool = kani::any();
    let start: u16 = kani::any();
    let d = start.wrapping_sub(snd_una) as i16 as i32;
    kani::assume(!has_start || (d >= -1024 && d <= 1024));
    let first_idx: usize = if has_start && d > 0 { d as usize } else { 0 };
    let now = at_ms(kani::any::<u32>() as u64);
    let mut expect = first_idx;
    let mut yielded = 0usize;
    let mut first = true;
    for mut item in s.iter_mut_for_sending(if has_start { Some(SeqNr(start)) } else { None }) {
        // skip delivered in the ghost
        while expect < N && ghost[expect].delivered {
            expect += 1;
        }
        assert!(expect < N, "C06: iterator yields no more than the undelivered segments");
        let g = ghost[expect];
        assert!(item.seq_nr().0 == snd_una.wrapping_add(expect as u16), "C01: item carries its segment's sequence number");
        assert!(!item.is_delivered(), "C06: an acknowledged segment is never offered for (re)transmission");
        assert!(item.payload_size() == g.size, "C01: item size is the segment's");
        let mut before = 0usize;
        let mut j = 0;
        while j < N {
            if j < expect {
                before += ghost[j].size;
            }
            j += 1;
        }
        assert!(item.payload_offset() == before, "C01: item offset is the number of unacknowledged bytes queued before it");
        assert!(item.is_mtu_probe() == g.probe, "C14: probe flag visible to the sender");
        if first {
            first = false;
            let (sc, rc) = (item.send_count(), item.retransmit_count());
            assert!(sc == match g.sent_kind { 0 => 0, 1 => 1, _ => g.count + 1 }, "C06: send_count reflects the send status");
            assert!(rc == if g.sent_kind == 2 { g.count } else { 0 }, "C06: retransmit_count reflects the send status");
            item.on_sent(now);
            assert!(item.send_count() == sc + 1, "C06: on_sent counts one more transmission");
            assert!(item.retransmit_count() == if g.sent_kind == 0 { 0 } else { rc + 1 }, "C06: a re-send counts as a retransmission");
        }
        expect += 1;
        yielded += 1;
    }
    while expect < N && ghost[expect].delivered {
        expect += 1;
    }
    assert!(expect >= N, "C01: every undelivered segment from the start point on is offered");
    kani::cover!(yielded == 2 && ghost[1].delivered, "a SACKed segment in the middle is skipped");
    std::mem::forget(s);
}

// @verif id=SEG.pipe props=C10 tier=quick timeout=900
// @functions Segments::calc_pipe, constants::calc_pipe_expiry, Segment::last_sent
// @bounds N = 3 segments; every high_rxt: u16; high_data with 0 <= high_data - snd_una <= N or anywhere behind snd_una; rtt <= 2^32 ms; any now
// @asserts no panic / overflow; pipe <= queued bytes * 2; representation invariant untouched
// @assumes high_data does not run ahead of the queue (last_sent_seq_nr <= snd_una + N, which the dispatcher maintains: C10.5 tier C)
#[kani::proof]
#[kani::unwind(6)]
fn seg_calc_pipe_n3() {
    const N: usize = 3;
    let (mut s, _ghost) = any_segments::<N>();
    let high_rxt: u16 = kani::any();
    let hd_rel: i16 = kani::any();
    kani::assume(hd_rel >= -1024 && hd_rel <= N as i16);
    let high_data = s.snd_una.0.wrapping_add(hd_rel as u16);
    let rtt = Duration::from_millis(kani::any::<u32>() as u64);
    let now = at_ms(kani::any::<u32>() as u64);
    let p = s.calc_pipe(SeqNr(high_rxt), SeqNr(high_data), rtt, now);
    assert!(p.pipe <= 2 * s.len_bytes, "C10: pipe estimate bounded by twice the queued bytes");
    assert!(inv(&s), "C10: calc_pipe leaves the accounting alone");
    std::mem::forget(s);
    kani::cover!(true, "end of harness reachable (assumptions satisfiable, no unconditional failure)");
}

// ---- accessors for the tier-C harnesses (fields are private to stream_tx_segments.rs) ------------

/// sizes of the first 4 queued segments (0 = absent)
pub fn verif_sizes(s: &Segments) -> [usize; 4] {
    let mut out = [0usize; 4];
    let mut i = 0;
    while i < 4 {
        if i < s.segments.len() {
            out[i] = s.segments[i].payload_size;
        }
        i += 1;
    }
    out
}
/// send counts of the first 4 queued segments
pub fn verif_send_counts(s: &Segments) -> [usize; 4] {
    let mut out = [0usize; 4];
    let mut i = 0;
    while i < 4 {
        if i < s.segments.len() {
            out[i] = s.segments[i].send_count();
        }
        i += 1;
    }
    out
}
pub fn verif_probe_flags(s: &Segments) -> [bool; 4] {
    let mut out = [false; 4];
    let mut i = 0;
    while i < 4 {
        if i < s.segments.len() {
            out[i] = s.segments[i].is_mtu_probe;
        }
        i += 1;
    }
    out
}
pub fn verif_snd_una(s: &Segments) -> SeqNr {
    s.snd_una
}
/// Queue of N segments with the given concrete sizes, send status per `sent_mask` bit (1 = transmitted once
/// at `ts_ms`), contiguous from stream offset 0, first sequence number `snd_una`.
pub fn segments_with<const N: usize>(snd_una: u16, sizes: [usize; N], sent_mask: u8, ts_ms: u64, probe_last: bool) -> Segments {
    let mut v: Vec<Segment> = Vec::with_capacity(N + 4);
    let mut off = 0u64;
    let mut total = 0usize;
    let mut i = 0;
    while i < N {
        let sent = if (sent_mask >> i) & 1 == 1 { SentStatus::SentTime(at_ms(ts_ms)) } else { SentStatus::NotSent };
        v.push(Segment { payload_size: sizes[i], payload_offset_absolute: off, is_delivered: false, sent,
            is_mtu_probe: probe_last && i + 1 == N, is_lost: false, is_expired: false, has_sacks_after_it: false });
        off += sizes[i] as u64;
        total += sizes[i];
        i += 1;
    }
    Segments { segments: VecDeque::from(v), len_bytes: total, offset: off, removed_offset: 0, sack_depth: 0, last_sack_empty: false, snd_una: SeqNr(snd_una) }
}

/// Contract stub for `pop_expired_mtu_probe` (tier-C cut; the real function is decided by SEG.popx*):
/// returns the harness-chosen outcome without touching the queue. 0 = Empty, 1 = NotExpired.
pub static mut POPX_RESULT: u8 = 0;
pub static mut POPX_CALLS: usize = 0;
impl Segments {
    pub fn stub_pop_expired_mtu_probe(&mut self, _retransmit_timed_out: bool, _max_probe_retransmissions: usize) -> PopExpiredProbe {
        unsafe {
            POPX_CALLS += 1;
            if POPX_RESULT == 1 { PopExpiredProbe::NotExpired } else { PopExpiredProbe::Empty }
        }
    }
}

/// Mark segment `idx` as retransmitted `count` times (count 0 = transmitted once), last at `ts_ms`.
pub fn verif_set_retransmitted(s: &mut Segments, idx: usize, count: usize, ts_ms: u64) {
    s.segments[idx].sent = if count == 0 { SentStatus::SentTime(at_ms(ts_ms)) } else { SentStatus::Retransmitted { count, last_send_ts: at_ms(ts_ms) } };
}
