//! C05.3 / C06.5 / C01.S5 / C14 — transmission of queued segments (`send_tx_queue`): tier C.
// @requires stream_dispatch__vs.rs
// @requires stream_tx_segments__seg.rs
#![allow(unused_imports, dead_code, static_mut_refs)]
use super::verif_stream_dispatch__vs::*;
use super::*;
use crate::stream_tx_segments::verif_stream_tx_segments__seg::{segments_with, verif_send_counts, verif_sizes};
use std::task::Context;

fn cfg4(fill: usize) -> VsConfig {
    VsConfig { link_mtu: 52, rx_buf: 12, nagle: true, ring: (8, 3, fill), tx_max: 8 }
}

fn install<const N: usize>(t: &mut VsTest, sizes: [usize; N], sent_mask: u8, last_sent_idx: i32) {
    let old = std::mem::replace(&mut t.vsock.user_tx_segments, segments_with::<N>(OUR_SEQ, sizes, sent_mask, 9_900, false));
    std::mem::forget(old);
    t.vsock.last_sent_seq_nr = SeqNr(OUR_SEQ.wrapping_add(last_sent_idx as u16));
    t.vsock.seq_nr = SeqNr(OUR_SEQ.wrapping_add((last_sent_idx + 1) as u16));
}

/// Check the i-th recorded datagram against the segment (seq index `k`, stream offset `off`, size).
fn check_data(t: &VsTest, i: usize, k: u16, off: usize, size: usize) {
    let (h, n) = sent_header(i).unwrap();
    assert!(h.htype == Type::ST_DATA && n == 20, "C11: data packets carry the plain 20-byte header");
    assert!(h.seq_nr == SeqNr(OUR_SEQ.wrapping_add(k)), "C01: every (re)transmission of a segment carries that segment's sequence number");
    assert!(h.ack_nr == SeqNr(PEER_LAST) && h.connection_id == SeqNr(CONN_ID_SEND), "C04: data packets carry the current acknowledgement and our connection id");
    assert!(sent_total(i) == 20 + size, "C14: datagram length is header + the segment's payload, never more");
    let idx = unsafe { PROBE_IDX };
    if idx < size {
        assert!(sent_pbyte(i) == Some(t.ring_model[off + idx]), "C01: the payload is exactly the segment's byte range of the written stream");
    }
}

// @verif id=VS.send.one props=C05,C01,C14,C06,C11,C09 tier=quick timeout=900
// @functions VirtualSocket::send_tx_queue, send_data! macro, Segments::iter_mut_for_sending, Segments::calc_flight_size, utils::prepare_2_ioslices, SegmentForSending::on_sent, UtpSocket::try_poll_send_to_vectored
// @bounds one never-sent 4-byte segment whose bytes wrap in the ring (symbolic content); peer window ANY u32; controller window ANY u32; not in recovery, no RTO pending; sequence numbers at the 16-bit wrap; payload byte compared at ANY index
// @asserts the segment is sent iff it fits min(controller window, peer window); bytes outstanding afterwards never exceed the peer's advertised window nor the controller window; zero window => nothing sent; the datagram is ST_DATA with the segment's sequence number, payload == the segment's bytes, length == 20 + size; marked sent once; last_sent/seq_nr advance; retransmission timer armed at now + RTO
// @unwindset make_tx_at=9,__vs::record=37
crate::verif_tier_c! {
#[kani::unwind(6)]
fn vs_send_one_segment_within_windows() {
    let mut t = make_vsock(VirtualSocketState::Established, cfg4(4));
    install::<1>(&mut t, [4], 0, -1);
    let wnd: u32 = kani::any();
    let cw: u32 = kani::any();
    t.vsock.last_remote_window = wnd;
    unsafe {
        CC_WINDOW = cw as usize;
        PROBE_IDX = kani::any();
        kani::assume(PROBE_IDX < 4);
    }
    let w = cx_waker();
    let mut cx = Context::from_waker(&w);
    let r = t.vsock.send_tx_queue(&mut cx);
    let ok = r.is_ok();
    std::mem::forget(r);
    assert!(ok, "C10: sending does not fail");
    let limit = core::cmp::min(cw as usize, wnd as usize);
    let want = if limit >= 4 { 1 } else { 0 };
    kani::cover!(want == 1, "segment sent");
    kani::cover!(want == 0 && wnd > 0, "held back by a small window");
    assert!(sent_n() == want, "C05: a new segment is sent exactly when it fits the smaller of peer window and congestion window");
    if want == 1 {
        check_data(&t, 0, 0, 0, 4);
    }
    let flight = t.vsock.user_tx_segments.calc_flight_size(t.vsock.last_sent_seq_nr);
    assert!(flight <= wnd as usize && flight <= cw as usize, "C05: outstanding bytes never exceed the most recently advertised peer window (nor the congestion window)");
    if wnd == 0 {
        assert!(sent_n() == 0, "C05: after a zero window no new payload is sent");
    }
    let sc = verif_send_counts(&t.vsock.user_tx_segments);
    assert!(sc[0] == want, "C06: a transmitted segment is marked sent exactly once");
    assert!(t.vsock.last_sent_seq_nr == SeqNr(OUR_SEQ.wrapping_add(want as u16).wrapping_sub(1)) && t.vsock.seq_nr == SeqNr(OUR_SEQ.wrapping_add(want as u16)),
        "C17: sequence numbers advance with the data sent");
    if want > 0 {
        assert!(t.vsock.timers.retransmit == Timer::Armed { expires_at: now_at(T0_US) + t.vsock.rtte.retransmission_timeout() }, "C06: unacknowledged data is covered by the retransmission timer");
    } else {
        assert!(t.vsock.timers.retransmit == Timer::Idle, "C06: nothing sent, no timer");
    }
    finish(t);
}
}

// @verif id=VS.send.two props=C05,C01,C14,C11,C09 tier=quick timeout=1200 mem=16
// @functions VirtualSocket::send_tx_queue, send_data! macro, Segments::iter_mut_for_sending, utils::prepare_2_ioslices
// @bounds one 4-byte segment already in flight, a never-sent 3-byte segment behind it (7 buffered bytes wrapping in the ring); controller window 1024; peer window ANY 0..=16
// @asserts the second segment is sent iff 4 + 3 <= peer window (bytes in flight count against the advertised window); it carries the NEXT sequence number and exactly its own byte range (stream offset 4); the in-flight segment is not re-sent; outstanding bytes <= peer window unless they already were above it (window shrank)
// @unwindset make_tx_at=9,__vs::record=37
crate::verif_tier_c! {
#[kani::unwind(6)]
fn vs_send_second_segment_counts_flight() {
    let mut t = make_vsock(VirtualSocketState::Established, cfg4(7));
    install::<2>(&mut t, [4, 3], 0b01, 0);
    t.vsock.timers.retransmit = Timer::Armed { expires_at: now_at(T0_US + 80_000) };
    let wnd: u32 = kani::any();
    kani::assume(wnd <= 16);
    t.vsock.last_remote_window = wnd;
    unsafe {
        PROBE_IDX = kani::any();
        kani::assume(PROBE_IDX < 3);
    }
    let w = cx_waker();
    let mut cx = Context::from_waker(&w);
    let r = t.vsock.send_tx_queue(&mut cx);
    let ok = r.is_ok();
    std::mem::forget(r);
    assert!(ok, "C10: sending does not fail");
    let want = if wnd >= 7 { 1 } else { 0 };
    kani::cover!(want == 1, "second segment sent");
    kani::cover!(want == 0 && wnd >= 4, "held back: flight + segment exceeds the window");
    assert!(sent_n() == want, "C05: new payload is sent only if it fits the peer window together with the bytes already outstanding");
    if want == 1 {
        check_data(&t, 0, 1, 4, 3);
    }
    let flight = t.vsock.user_tx_segments.calc_flight_size(t.vsock.last_sent_seq_nr);
    assert!(flight <= core::cmp::max(wnd as usize, 4), "C05: sending new payload never pushes the outstanding bytes above the advertised window");
    let sc = verif_send_counts(&t.vsock.user_tx_segments);
    assert!(sc[0] == 1 && sc[1] == want, "C06: the in-flight segment is not re-sent outside recovery/timeout");
    finish(t);
}
}

// ---- retransmission timeout ----------------------------------------------------------------------

fn rto_step(c: usize, two: bool) {
    let mut t = make_vsock(VirtualSocketState::Established, cfg4(if two { 7 } else { 4 }));
    if two {
        install::<2>(&mut t, [4, 3], 0b01, 0);
    } else {
        install::<1>(&mut t, [4], 0b01, 0);
    }
    crate::stream_tx_segments::verif_stream_tx_segments__seg::verif_set_retransmitted(&mut t.vsock.user_tx_segments, 0, c, 9_000);
    t.vsock.timers.retransmit = Timer::Armed { expires_at: now_at(T0_US - 5_000) };
    unsafe {
        PROBE_IDX = kani::any();
        kani::assume(PROBE_IDX < 4);
    }
    let rto0 = t.vsock.rtte.retransmission_timeout();
    let w = cx_waker();
    let mut cx = Context::from_waker(&w);
    let r = t.vsock.send_tx_queue(&mut cx);
    let ok = r.is_ok();
    let max_err = matches!(&r, Err(Error::MaxRetransmissionsReached));
    std::mem::forget(r);
    if c == 5 {
        assert!(max_err && sent_n() == 0, "C06: after the configured number of retransmissions the connection fails with an error rather than retrying forever");
    } else {
        assert!(ok, "C10: a timeout below the limit is not an error");
        assert!(sent_n() == 1, "C05: immediately after a retransmission timeout a single segment is sent");
        check_data(&t, 0, 0, 0, 4);
        let sc = verif_send_counts(&t.vsock.user_tx_segments);
        assert!(sc[0] == c + 2 && sc[1] == 0, "C06: the expired segment is retransmitted; never-sent data waits");
        assert!(unsafe { CC_RTO } == 1 && t.vsock.rto_retransmissions == 1, "C15: the controller is told about the timeout once");
        let rto1 = t.vsock.rtte.retransmission_timeout();
        assert!(rto1 == core::cmp::min(rto0 * 2, Duration::from_secs(60)), "C06: successive timeouts double the retransmission timeout");
        assert!(t.vsock.timers.retransmit == Timer::Armed { expires_at: now_at(T0_US) + rto1 }, "C06: the timer restarts with the backed-off timeout");
        assert!(t.vsock.last_sent_seq_nr == SeqNr(OUR_SEQ), "C06: sending resumes after the retransmitted segment");
    }
    finish(t);
}

macro_rules! rto_instance {
    ($name:ident, $c:expr, $two:expr) => {
        crate::verif_tier_c! {
        #[kani::unwind(6)]
        fn $name() {
            rto_step($c, $two);
            kani::cover!(true, "end of harness reachable (assumptions satisfiable, no unconditional failure)");
        }
        }
    };
}

// @verif id=VS.send.rto0q props=C06,C05,C01 tier=thorough timeout=2400 mem=16
// @functions VirtualSocket::send_tx_queue (RTO branch), send_data! macro, RttEstimator::on_rto_timeout, Recovery::on_rto_timeout, MockCc::on_retransmission_timeout
// @bounds retransmission timer expired 5 ms ago; ONE 4-byte segment in flight (sent once); windows 1024; payload byte compared at ANY index
// @asserts exactly one datagram leaves - the unacknowledged segment, same sequence number, same bytes; the RTO doubles, the timer restarts at now + new RTO, the controller is told once, RTO mode entered
// @unwindset make_tx_at=9,__vs::record=37
// @tier C
rto_instance!(vs_send_rto_first_timeout_one_segment, 0, false);

// @verif id=VS.send.rto0 props=C06,C05,C01 tier=thorough timeout=2400 mem=20
// @functions VirtualSocket::send_tx_queue (RTO branch), send_data! macro, RttEstimator::on_rto_timeout, Recovery::on_rto_timeout, MockCc::on_retransmission_timeout
// @bounds retransmission timer expired 5 ms ago; a 4-byte segment in flight (sent once) and a never-sent 3-byte segment behind it; windows 1024; payload byte compared at ANY index
// @asserts exactly ONE datagram leaves - the first unacknowledged segment, same sequence number, same bytes; the RTO doubles, the timer restarts at now + new RTO, the controller is told once, the connection enters RTO mode: the never-sent segment is NOT sent (single segment after a timeout)
// @unwindset make_tx_at=9,__vs::record=37
// @tier C
rto_instance!(vs_send_rto_first_timeout, 0, true);

// @verif id=VS.send.rto4 props=C06,C05 tier=thorough timeout=1200 mem=16
// @functions VirtualSocket::send_tx_queue (RTO branch)
// @bounds as VS.send.rto0q with the segment already retransmitted 4 times (one below the limit)
// @asserts as VS.send.rto0 (fifth retransmission still goes out)
// @unwindset make_tx_at=9,__vs::record=37
// @tier C
rto_instance!(vs_send_rto_below_limit, 4, false);

// @verif id=VS.send.rto5 props=C06,C03 tier=thorough timeout=2400 mem=16
// @functions VirtualSocket::send_tx_queue (RTO branch), send_data! macro
// @bounds as VS.send.rto0q with the segment already retransmitted 5 times (the configured limit)
// @asserts the connection fails with MaxRetransmissionsReached; nothing is sent
// @unwindset make_tx_at=9,__vs::record=37
// @tier C
rto_instance!(vs_send_rto_at_limit_fails, 5, false);

// @verif id=VS.send.rtomode props=C05,C06 tier=quick timeout=1200 mem=16
// @functions VirtualSocket::send_tx_queue
// @bounds RTO mode (one timeout since the last acknowledgement), timer armed 150 ms in the future; one segment in flight, one never sent; windows 1024
// @asserts nothing at all is sent until new data is acknowledged
// @unwindset make_tx_at=9,__vs::record=37
crate::verif_tier_c! {
#[kani::unwind(6)]
fn vs_send_nothing_in_rto_mode() {
    let mut t = make_vsock(VirtualSocketState::Established, cfg4(7));
    install::<2>(&mut t, [4, 3], 0b01, 0);
    t.vsock.rto_retransmissions = 1;
    t.vsock.timers.retransmit = Timer::Armed { expires_at: now_at(T0_US + 150_000) };
    let w = cx_waker();
    let mut cx = Context::from_waker(&w);
    let r = t.vsock.send_tx_queue(&mut cx);
    let ok = r.is_ok();
    std::mem::forget(r);
    assert!(ok && sent_n() == 0, "C05: after a retransmission timeout nothing but the timed-out segment is sent until new data is acknowledged");
    let sc = verif_send_counts(&t.vsock.user_tx_segments);
    assert!(sc[0] == 1 && sc[1] == 0, "C05: no segment is (re)transmitted in RTO mode before the timer fires again");
    finish(t);
    kani::cover!(true, "end of harness reachable (assumptions satisfiable, no unconditional failure)");
}
}

// @verif id=VS.send.finrto props=C06,C17,C09 tier=quick timeout=1200 mem=16
// @functions VirtualSocket::send_tx_queue (RTO branch without data), VirtualSocket::maybe_send_fin
// @bounds FinWait1 or LastAck with the own FIN (OUR_SEQ-1) sent and unacknowledged, no data outstanding, retransmission timer expired; or Established with nothing outstanding and an expired timer
// @asserts the FIN is retransmitted (same sequence number), the timeout is backed off and the timer restarted; with nothing outstanding the timer is simply switched off and nothing is sent
// @unwindset make_tx_at=9,__vs::record=37
crate::verif_tier_c! {
#[kani::unwind(6)]
fn vs_send_rto_retransmits_fin() {
    let f = OUR_SEQ.wrapping_sub(1);
    let k: u8 = kani::any();
    kani::assume(k < 3);
    let st = match k {
        0 => VirtualSocketState::FinWait1 { our_fin: SeqNr(f) },
        1 => VirtualSocketState::LastAck { our_fin: SeqNr(f), remote_fin: SeqNr(PEER_LAST) },
        _ => VirtualSocketState::Established,
    };
    let mut t = make_vsock(st, cfg4(0));
    t.vsock.last_sent_seq_nr = SeqNr(f);
    t.vsock.seq_nr = SeqNr(OUR_SEQ);
    t.vsock.timers.retransmit = Timer::Armed { expires_at: now_at(T0_US - 5) };
    let rto0 = t.vsock.rtte.retransmission_timeout();
    let w = cx_waker();
    let mut cx = Context::from_waker(&w);
    let r = t.vsock.send_tx_queue(&mut cx);
    let ok = r.is_ok();
    std::mem::forget(r);
    assert!(ok, "C10: no error");
    if k < 2 {
        assert!(sent_n() == 1, "C06: an unacknowledged FIN is retransmitted when its timeout expires");
        let (h, n) = sent_header(0).unwrap();
        assert!(h.htype == Type::ST_FIN && h.seq_nr == SeqNr(f) && n == sent_total(0), "C17: the retransmitted FIN keeps its sequence number");
        let rto1 = t.vsock.rtte.retransmission_timeout();
        assert!(rto1 == core::cmp::min(rto0 * 2, Duration::from_secs(60)) && t.vsock.timers.retransmit == Timer::Armed { expires_at: now_at(T0_US) + rto1 },
            "C06: FIN retransmissions back off like data");
        assert!(t.vsock.last_sent_seq_nr == SeqNr(f), "C17: the FIN stays the last sent sequence number");
    } else {
        assert!(sent_n() == 0 && t.vsock.timers.retransmit == Timer::Idle, "C06: with nothing outstanding an expired timer is switched off");
    }
    finish(t);
    kani::cover!(true, "end of harness reachable (assumptions satisfiable, no unconditional failure)");
}
}
