//! C06.2 — loss-recovery state machine (`Recovery`): one ACK / one timeout from every phase
//! (DESIGN §3 C06.2). The congestion controller is a recording mock (the trait object boundary), the
//! segment queue is the real `Segments` with a concrete shape.
// @requires stream_tx_segments__seg.rs
#![allow(unused_imports, dead_code)]
use super::*;
use crate::raw::selective_ack::SelectiveAck;
use crate::stream_tx_segments::verif_stream_tx_segments__seg::{any_segments, inv as seg_inv, unsent_segments};
use crate::verif_lib__support::at_ms;

#[derive(Debug)]
struct MockCc {
    entered: usize,
    recovered: usize,
    ssthresh: usize,
    mss: usize,
    last_recovered: (usize, usize),
}
impl CongestionController for MockCc {
    fn window(&self) -> usize { 0 }
    fn sshthresh(&self) -> usize { self.ssthresh }
    fn set_mss(&mut self, _mss: usize) {}
    fn smss(&self) -> usize { self.mss }
    fn on_recovered(&mut self, c: usize, s: usize) { self.recovered += 1; self.last_recovered = (c, s); }
    fn on_ack(&mut self, _now: Instant, _len: usize, _rtt: &crate::rtte::RttEstimator) {}
    fn on_retransmission_timeout(&mut self, _now: Instant) {}
    fn on_enter_recovery(&mut self, _now: Instant) { self.entered += 1; }
    fn set_remote_window(&mut self, _win: usize) {}
}
fn mock() -> MockCc {
    let ssthresh: u32 = kani::any();
    let mss: u16 = kani::any();
    kani::assume(mss >= 1);
    MockCc { entered: 0, recovered: 0, ssthresh: ssthresh as usize, mss: mss as usize, last_recovered: (0, 0) }
}

fn any_type() -> Type {
    let t: u8 = kani::any();
    kani::assume(t <= 2);
    match t { 0 => Type::ST_DATA, 1 => Type::ST_FIN, _ => Type::ST_STATE }
}

// @verif id=REC.nosack props=C06,C09 tier=quick timeout=900
// @functions Recovery::on_ack, recovery::count_non_sack_duplicates, Segments::first_seq_nr, Segments::calc_pipe
// @bounds phase CountingDuplicates{dup_acks 0..=4}, receiver never sent a SACK; any remembered last ACK (or none); header of type DATA/FIN/STATE with any ack_nr and window, no SACK; real Segments with 2 queued segments (any sizes, snd_una = 65535 so the queue straddles the wrap; never-sent, so the pipe estimate is trivially 0), last_sent = snd_una+1; mock controller
// @asserts duplicate counted iff ST_STATE with the same ack_nr and unchanged window as the remembered ACK, otherwise the count resets and the ACK is remembered; fast recovery is entered exactly when the count reaches 3 (third duplicate), never earlier; on entry: controller notified once, recovery point = last sent, high_rxt = snd_una-1, cwnd = controller ssthresh
// @assumes Segments representation invariant
#[kani::proof]
#[kani::unwind(6)]
fn rec_counting_duplicates_nosack() {
    let mut segs = unsent_segments::<2>(65535);
    let snd_una = segs.first_seq_nr().unwrap();
    let last_sent = snd_una + 1;
    let d0: u8 = kani::any();
    kani::assume(d0 <= 4);
    let has_last: bool = kani::any();
    let last = LastAck { window: kani::any(), ack_nr: SeqNr(kani::any()) };
    let mut r = Recovery { receiver_supports_sack: false, last_ack: if has_last { Some(last) } else { None }, phase: RecoveryPhase::CountingDuplicates { dup_acks: d0 } };
    let mut hdr = UtpHeader::default();
    hdr.htype = any_type();
    hdr.ack_nr = SeqNr(kani::any());
    hdr.wnd_size = kani::any();
    let mut cc = mock();
    let res = OnAckResult::default();
    r.on_ack(&hdr, &res, &mut segs, last_sent, &mut cc, at_ms(kani::any::<u32>() as u64), Duration::from_millis(kani::any::<u16>() as u64));
    let is_dup = has_last && hdr.htype == Type::ST_STATE && last.ack_nr == hdr.ack_nr && last.window == hdr.wnd_size;
    let want = if is_dup { d0 + 1 } else { 0 };
    kani::cover!(is_dup && d0 == 2, "third duplicate ACK");
    match r.phase {
        RecoveryPhase::CountingDuplicates { dup_acks } => {
            assert!(dup_acks == want && want < 3, "C06: duplicate ACKs are counted; below three nothing is retransmitted early");
            assert!(cc.entered == 0, "C06: controller untouched below the threshold");
        }
        RecoveryPhase::Recovering(rec) => {
            assert!(want >= 3, "C06: fast retransmit needs three duplicate ACKs");
            assert!(cc.entered == 1, "C06: congestion controller told about the loss exactly once");
            assert!(rec.recovery_point() == last_sent && rec.high_rxt == snd_una - 1 && rec.total_retransmitted_segments() == 0,
                "C06: recovery covers everything sent so far, nothing retransmitted yet");
            assert!(rec.cwnd == cc.ssthresh, "C06: recovery window is the reduced threshold");
        }
        RecoveryPhase::IgnoringUntilRecoveryPoint { .. } => assert!(false, "C06: counting never jumps to the RTO-ignore phase"),
    }
    if !is_dup {
        assert!(r.last_ack.is_some_and(|l| l.ack_nr == hdr.ack_nr && l.window == hdr.wnd_size), "C06: a non-duplicate ACK becomes the reference for later duplicates");
    }
    assert!(seg_inv(&segs), "C06: recovery bookkeeping leaves the TX accounting alone");
    std::mem::forget(segs);
}

// @verif id=REC.sack props=C06,C09 tier=quick timeout=900
// @functions Recovery::on_ack, recovery::count_sack_duplicates, SelectiveAck::as_bitslice
// @bounds phase CountingDuplicates{0..=4}; receiver_supports_sack arbitrary; header with a SACK of 16 arbitrary leading bits (any type, ack_nr, window); 2-segment queue
// @asserts a SACK naming >= 3 packets enters recovery at once ("equivalent selective-ACK evidence"); fewer: the count goes up by one and recovery starts exactly when it reaches 3; receiver marked SACK-capable
// @assumes Segments representation invariant
// @unwindset bitvec=9
#[kani::proof]
#[kani::unwind(6)]
fn rec_counting_duplicates_sack() {
    let mut segs = unsent_segments::<2>(65535);
    let snd_una = segs.first_seq_nr().unwrap();
    let last_sent = snd_una + 1;
    let d0: u8 = kani::any();
    kani::assume(d0 <= 4);
    let mut r = Recovery { receiver_supports_sack: kani::any(), last_ack: None, phase: RecoveryPhase::CountingDuplicates { dup_acks: d0 } };
    let bits: u16 = kani::any();
    let mut hdr = UtpHeader::default();
    hdr.htype = any_type();
    hdr.ack_nr = SeqNr(kani::any());
    hdr.wnd_size = kani::any();
    hdr.extensions.selective_ack = Some(SelectiveAck::deserialize(&[bits as u8, (bits >> 8) as u8, 0, 0, 0, 0, 0, 0]));
    let mut cc = mock();
    let res = OnAckResult::default();
    r.on_ack(&hdr, &res, &mut segs, last_sent, &mut cc, at_ms(kani::any::<u32>() as u64), Duration::from_millis(kani::any::<u16>() as u64));
    let ones = bits.count_ones();
    let want = if ones >= 3 { 3 } else { d0 + 1 };
    kani::cover!(ones >= 3 && d0 == 0, "SACK evidence alone triggers recovery");
    assert!(r.receiver_supports_sack, "C06: a SACK marks the peer as SACK-capable");
    match r.phase {
        RecoveryPhase::CountingDuplicates { dup_acks } => assert!(dup_acks == want && want < 3 && cc.entered == 0, "C06: below the threshold only the counter moves"),
        RecoveryPhase::Recovering(rec) => {
            assert!(want >= 3 && cc.entered == 1, "C06: recovery starts at three duplicates or three SACKed packets");
            assert!(rec.recovery_point() == last_sent && rec.high_rxt == snd_una - 1, "C06: recovery point / high_rxt");
        }
        _ => assert!(false, "C06: unexpected phase"),
    }
    std::mem::forget(segs);
}

// @verif id=REC.other props=C06,C10,C09 tier=quick timeout=900
// @functions Recovery::on_ack (IgnoringUntilRecoveryPoint, Recovering, empty queue), Recovery::on_rto_timeout, Recovery::is_recovering, Recovery::remaining_cwnd, Segments::calc_flight_size
// @bounds phases IgnoringUntilRecoveryPoint{any point within 1024 of ack_nr} and Recovering{any}; CountingDuplicates with an EMPTY queue; any header (no SACK); then on_rto_timeout from every phase
// @asserts while a timeout recovery is in progress duplicate ACKs never start fast recovery; the ignore phase ends exactly when ack_nr reaches the recovery point; Recovering ends exactly at the recovery point (controller told once), otherwise unchanged; empty queue: count reset, no recovery; RTO during Recovering -> ignore phase with recovery point = last sent, other phases untouched
// @assumes Segments representation invariant; sequence distances within the wrap tolerance
#[kani::proof]
#[kani::unwind(6)]
fn rec_other_phases_and_rto() {
    let mut hdr = UtpHeader::default();
    hdr.htype = any_type();
    let ack: u16 = kani::any();
    hdr.ack_nr = SeqNr(ack);
    hdr.wnd_size = kani::any();
    let mut cc = mock();
    let res = OnAckResult::default();
    let now = at_ms(kani::any::<u32>() as u64);
    let rtt = Duration::from_millis(kani::any::<u16>() as u64);
    let rel: i16 = kani::any();
    kani::assume(rel >= -1000 && rel <= 1000);
    let point = SeqNr(ack.wrapping_add(rel as u16));
    let which: u8 = kani::any();
    kani::assume(which < 3);
    if which == 0 {
        let mut segs = unsent_segments::<2>(65535);
        let last_sent = segs.first_seq_nr().unwrap() + 1;
        let mut r = Recovery { receiver_supports_sack: kani::any(), last_ack: None, phase: RecoveryPhase::IgnoringUntilRecoveryPoint { recovery_point: point } };
        r.on_ack(&hdr, &res, &mut segs, last_sent, &mut cc, now, rtt);
        assert!(!r.is_recovering() && cc.entered == 0, "C06: no fast retransmit while a timeout recovery is in progress");
        match r.phase {
            RecoveryPhase::CountingDuplicates { dup_acks } => assert!(rel <= 0 && dup_acks == 0, "C06: the ignore phase ends once the recovery point is acknowledged"),
            RecoveryPhase::IgnoringUntilRecoveryPoint { recovery_point } => assert!(rel > 0 && recovery_point == point, "C06: still ignoring below the recovery point"),
            _ => assert!(false, "C06: unexpected phase"),
        }
        std::mem::forget(segs);
    } else if which == 1 {
        let mut segs = unsent_segments::<2>(65535);
        let last_sent = segs.first_seq_nr().unwrap() + 1;
        let rec = Recovering { recovery_point: point, high_rxt: SeqNr(kani::any()), total_retransmitted_segments: kani::any::<u8>() as usize,
            pipe_estimate: Pipe { pipe: kani::any::<u16>() as usize, recalc_timer: None }, cwnd: kani::any::<u32>() as usize };
        let mut r = Recovery { receiver_supports_sack: kani::any(), last_ack: None, phase: RecoveryPhase::Recovering(rec) };
        let lw: u32 = kani::any();
        assert!(r.remaining_cwnd(lw) == Some(core::cmp::min(rec.cwnd, lw as usize).saturating_sub(rec.pipe_estimate.pipe)),
            "C05: during recovery new data is limited by min(recovery window, peer window) minus the pipe estimate");
        r.on_ack(&hdr, &res, &mut segs, last_sent, &mut cc, now, rtt);
        assert!(cc.entered == 0, "C06: recovery is not re-entered while recovering");
        if rel <= 0 {
            assert!(!r.is_recovering() && cc.recovered == 1, "C06: recovery ends when the recovery point is acknowledged");
            assert!(cc.last_recovered.1 == rec.cwnd, "C06: ssthresh after recovery is the recovery window");
            assert!(cc.last_recovered.0 <= cc.ssthresh, "C06: window after recovery is at most ssthresh");
        } else {
            assert!(r.is_recovering() && cc.recovered == 0, "C06: partial ACKs keep recovery going");
        }
        std::mem::forget(segs);
    } else {
        let mut segs = Segments::new(SeqNr(kani::any()));
        let last_sent = SeqNr(kani::any());
        let mut r = Recovery { receiver_supports_sack: kani::any(), last_ack: None, phase: RecoveryPhase::CountingDuplicates { dup_acks: kani::any() } };
        r.on_ack(&hdr, &res, &mut segs, last_sent, &mut cc, now, rtt);
        assert!(matches!(r.phase, RecoveryPhase::CountingDuplicates { dup_acks: 0 }) && cc.entered == 0, "C06: nothing outstanding, nothing to recover");
        std::mem::forget(segs);
    }
    // RTO from every phase
    let ls = SeqNr(kani::any());
    let k: u8 = kani::any();
    kani::assume(k < 3);
    let phase = match k {
        0 => RecoveryPhase::CountingDuplicates { dup_acks: kani::any() },
        1 => RecoveryPhase::IgnoringUntilRecoveryPoint { recovery_point: point },
        _ => RecoveryPhase::Recovering(Recovering { recovery_point: point, high_rxt: point, total_retransmitted_segments: 0, pipe_estimate: Pipe { pipe: 0, recalc_timer: None }, cwnd: 0 }),
    };
    let mut r2 = Recovery { receiver_supports_sack: false, last_ack: None, phase };
    r2.on_rto_timeout(ls);
    match (k, r2.phase) {
        (2, RecoveryPhase::IgnoringUntilRecoveryPoint { recovery_point }) => assert!(recovery_point == ls, "C06: a timeout during fast recovery switches to timeout recovery up to the last sent segment"),
        (0, RecoveryPhase::CountingDuplicates { .. }) => {}
        (1, RecoveryPhase::IgnoringUntilRecoveryPoint { recovery_point }) => assert!(recovery_point == point, "C06: an RTO does not move an existing recovery point"),
        _ => assert!(false, "C06: RTO only leaves the Recovering phase"),
    }
    kani::cover!(true, "end of harness reachable (assumptions satisfiable, no unconditional failure)");
}

// @verif id=REC.three props=C06,C09 tier=quick timeout=900
// @functions Recovery::new, Recovery::on_ack
// @bounds fresh Recovery; 1-segment queue; four identical ST_STATE ACKs (same ack_nr, same window, symbolic values) and, in a second run, a window update in third position
// @asserts exactly the third duplicate (fourth identical ACK) starts fast recovery; a window update in between resets the count
// @assumes Segments representation invariant
#[kani::proof]
#[kani::unwind(6)]
fn rec_three_duplicates_from_fresh() {
    let mut segs = unsent_segments::<1>(65535);
    let last_sent = segs.first_seq_nr().unwrap();
    let mut r = Recovery::new();
    let mut hdr = UtpHeader::default();
    hdr.htype = Type::ST_STATE;
    hdr.ack_nr = SeqNr(kani::any());
    hdr.wnd_size = kani::any();
    let mut cc = mock();
    let res = OnAckResult::default();
    let now = at_ms(5);
    let rtt = Duration::from_millis(10);
    let update_in_between: bool = kani::any();
    let mut i = 0;
    while i < 4 {
        let mut h = hdr;
        if update_in_between && i == 2 {
            h.wnd_size = hdr.wnd_size.wrapping_add(1);
        }
        r.on_ack(&h, &res, &mut segs, last_sent, &mut cc, now, rtt);
        if i < 3 {
            assert!(!r.is_recovering(), "C06: fewer than three duplicates never trigger fast retransmit");
        }
        i += 1;
    }
    assert!(r.is_recovering() == !update_in_between, "C06: three duplicate ACKs trigger fast retransmit; a window update resets the count");
    std::mem::forget(segs);
    kani::cover!(true, "end of harness reachable (assumptions satisfiable, no unconditional failure)");
}
