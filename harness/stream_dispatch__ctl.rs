//! C17.3 / C17.4 — SYN-ACK and own-FIN emission (`maybe_send_syn_ack`, `maybe_send_fin`): tier C.
// @requires stream_dispatch__vs.rs
#![allow(unused_imports, dead_code, static_mut_refs)]
use super::verif_stream_dispatch__vs::*;
use super::*;
use std::task::Context;

// @verif id=VS.synack props=C17,C11,C09 tier=quick timeout=900
// @functions VirtualSocket::maybe_send_syn_ack, VirtualSocket::send_ack, VirtualSocket::send_control_packet
// @bounds states SynReceived, SynAckSent{count 0..=6}, Established; resend timer idle or armed within +-300 ms of now; transport ready or blocked; configured retransmission limit 5
// @asserts SynReceived: a state packet acknowledging the SYN's sequence number goes out at once, state SynAckSent{1}, resend timer now+200 ms; SynAckSent: repeated only when the timer fired, count+1, timer re-armed; at the limit the connection fails with MaxSynAckRetransmissionsReached instead of sending; timer not fired: silence; other states: nothing sent, timer off; blocked transport: nothing changes
// @unwindset make_tx_at=9,__vs::record=37
crate::verif_tier_c! {
#[kani::unwind(5)]
fn vs_maybe_send_syn_ack() {
    let k: u8 = kani::any();
    kani::assume(k < 3);
    let count: usize = kani::any();
    kani::assume(count <= 6);
    let st = match k {
        0 => VirtualSocketState::SynReceived,
        1 => VirtualSocketState::SynAckSent { count },
        _ => VirtualSocketState::Established,
    };
    let mut t = make_vsock(st, VsConfig::default());
    let armed: bool = kani::any();
    let rel_ms: i16 = kani::any();
    kani::assume(rel_ms >= -300 && rel_ms <= 300);
    let deadline = now_at((T0_US as i64 + rel_ms as i64 * 1000) as u64);
    if armed {
        t.vsock.timers.syn_ack_resend = Timer::Armed { expires_at: deadline };
    }
    let pending: bool = kani::any();
    unsafe { TX_MODE = if pending { 1 } else { 0 } };
    let w = cx_waker();
    let mut cx = Context::from_waker(&w);
    let r = t.vsock.maybe_send_syn_ack(&mut cx);
    let ok = r.is_ok();
    let limit_err = matches!(&r, Err(Error::MaxSynAckRetransmissionsReached));
    std::mem::forget(r);
    let now = now_at(T0_US);
    let fired = armed && deadline <= now;
    kani::cover!(k == 1 && fired && count == 5, "retransmission limit reached");
    kani::cover!(k == 0 && !pending, "first SYN-ACK");
    let due = k == 0 || (k == 1 && fired);
    let prev = if k == 0 { 0 } else { count };
    if due && prev == 5 {
        assert!(limit_err && sent_n() == 0, "C17: after the configured number of SYN-ACKs the connection fails instead of repeating forever");
    } else {
        assert!(ok, "C10: no other error");
        if due && !pending {
            assert!(sent_n() == 1, "C17: the SYN is answered with exactly one state packet");
            let (h, n) = sent_header(0).unwrap();
            assert!(h.htype == Type::ST_STATE && n == sent_total(0) && h.ack_nr == SeqNr(PEER_LAST), "C17: the SYN-ACK is a state packet acknowledging the SYN's sequence number");
            assert!(h.connection_id == SeqNr(CONN_ID_SEND) && h.seq_nr == SeqNr(OUR_SEQ), "C11: SYN-ACK carries our id and initial sequence number");
            assert!(t.vsock.state == VirtualSocketState::SynAckSent { count: prev + 1 }, "C17: SYN-ACK transmissions are counted");
            assert!(t.vsock.timers.syn_ack_resend == Timer::Armed { expires_at: now + Duration::from_millis(200) }, "C17: the SYN-ACK is repeated on a 200 ms timer");
        } else {
            assert!(sent_n() == 0, "C17: no SYN-ACK before the resend timer fires / outside the handshake / on a blocked transport");
            assert!(t.vsock.state == st, "C17: state unchanged when nothing was sent");
            if k == 2 {
                assert!(t.vsock.timers.syn_ack_resend == Timer::Idle, "C17: the resend timer is off once the handshake is over");
            }
        }
    }
    finish(t);
}
}

// @verif id=VS.fin props=C17,C06,C11,C09 tier=quick timeout=900
// @functions VirtualSocket::maybe_send_fin, VirtualSocket::send_control_packet, VirtualSocketState::our_fin_if_unacked
// @bounds states Established, FinWait1{f}, FinWait2, LastAck{f}; our FIN number f anywhere (16-bit wrap), last sent sequence number f-3 ..= f; retransmit timer idle or armed; transport ready or blocked
// @asserts a FIN is emitted only if one is owed (FinWait1/LastAck) and everything before it was transmitted (f - last_sent == 1): then exactly one ST_FIN with seq_nr == f and ack_nr == last consumed goes out, last_sent := f, the retransmission timer runs (now + RTO unless an earlier deadline exists); otherwise nothing is sent and nothing changes
// @unwindset make_tx_at=9,__vs::record=37
crate::verif_tier_c! {
#[kani::unwind(5)]
fn vs_maybe_send_fin() {
    let f: u16 = kani::any();
    let k: u8 = kani::any();
    kani::assume(k < 4);
    let st = match k {
        0 => VirtualSocketState::Established,
        1 => VirtualSocketState::FinWait1 { our_fin: SeqNr(f) },
        2 => VirtualSocketState::FinWait2,
        _ => VirtualSocketState::LastAck { our_fin: SeqNr(f), remote_fin: SeqNr(PEER_LAST) },
    };
    let mut t = make_vsock(st, VsConfig::default());
    let d: u16 = kani::any();
    kani::assume(d <= 3);
    t.vsock.last_sent_seq_nr = SeqNr(f.wrapping_sub(d));
    t.vsock.seq_nr = SeqNr(f.wrapping_add(1));
    let armed: bool = kani::any();
    let earlier = now_at(T0_US + 50_000);
    if armed {
        t.vsock.timers.retransmit = Timer::Armed { expires_at: earlier };
    }
    let pending: bool = kani::any();
    unsafe { TX_MODE = if pending { 1 } else { 0 } };
    let w = cx_waker();
    let mut cx = Context::from_waker(&w);
    let r = t.vsock.maybe_send_fin(&mut cx);
    let sent = matches!(r, Ok(true));
    let ok = r.is_ok();
    std::mem::forget(r);
    assert!(ok, "C10: sending a FIN does not fail");
    let owed = k == 1 || k == 3;
    let due = owed && d == 1;
    kani::cover!(due && !pending, "FIN emitted");
    kani::cover!(owed && d == 2, "FIN held back behind unsent data");
    if due && !pending {
        assert!(sent && sent_n() == 1, "C17: the owed FIN is emitted at once");
        let (h, n) = sent_header(0).unwrap();
        assert!(h.htype == Type::ST_FIN && n == sent_total(0), "C11: a FIN carries no payload");
        assert!(h.seq_nr == SeqNr(f), "C17: the FIN carries the sequence number following the last data segment");
        assert!(h.ack_nr == SeqNr(PEER_LAST) && h.connection_id == SeqNr(CONN_ID_SEND), "C04: the FIN also acknowledges what was received");
        assert!(t.vsock.last_sent_seq_nr == SeqNr(f), "C17: the FIN counts as the last sent sequence number");
        let rto = t.vsock.rtte.retransmission_timeout();
        let want = if armed { core::cmp::min(earlier, now_at(T0_US) + rto) } else { now_at(T0_US) + rto };
        assert!(t.vsock.timers.retransmit == Timer::Armed { expires_at: want }, "C06: an unacknowledged FIN is covered by the retransmission timer");
    } else {
        assert!(!sent && sent_n() == 0, "C17: no FIN unless one is owed and all accepted data has been transmitted");
        assert!(t.vsock.last_sent_seq_nr == SeqNr(f.wrapping_sub(d)) && t.vsock.state == st, "C17: nothing changes when no FIN is sent");
    }
    finish(t);
}
}
