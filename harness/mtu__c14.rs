//! C14 — path-MTU search (`SegmentSizes`): every method from every valid state, all arguments
//! (DESIGN §3 C14.1–C14.4).
#![allow(unused_imports)]
use super::*;

// BEP-29 / IP numbers fixed by the property, not read from the crate's constants.
const IP4: u16 = 20;
const IP6: u16 = 40;
const UDP: u16 = 8;
const UTP: u16 = 20;

fn hdrs(is_ipv4: bool) -> u16 {
    (if is_ipv4 { IP4 } else { IP6 }) + UDP + UTP
}

/// Ghost: the largest uTP payload the configured link MTU allows.
fn ceiling(is_ipv4: bool, link_mtu: u16) -> u16 {
    let h = hdrs(is_ipv4);
    core::cmp::max(link_mtu, h + 1) - h
}

/// The largest ceiling the constructor can produce: 65535 - (20 + 8 + 20).
const MAX_CEIL: u16 = 65535 - 48;

/// Any state satisfying the representation invariant 1 <= min_ss <= max_ss <= ceil <= MAX_CEIL.
fn any_state(ceil: u16) -> SegmentSizes {
    kani::assume(ceil <= MAX_CEIL);
    let s = SegmentSizes {
        min_ss: kani::any(),
        max_ss: kani::any(),
        cooldown_remaining_packets: kani::any(),
        cooldown_max_packets: kani::any(),
    };
    kani::assume(inv(&s, ceil));
    s
}

fn inv(s: &SegmentSizes, ceil: u16) -> bool {
    1 <= s.min_ss && s.min_ss <= s.max_ss && s.max_ss <= ceil
}

// @verif id=C14.1a props=C14,C10 tier=quick
// @functions SegmentSizes::new
// @bounds every SegmentSizesConfig: link_mtu any u16, both address families, any cool-down
// @asserts 1 <= min_ss <= max_ss; max_ss + IP + UDP + uTP headers <= max(link_mtu, headers+1) (no datagram above the link MTU); min_ss is the protocol minimum (576/1280 or the link MTU if smaller) minus headers; no overflow
#[kani::proof]
fn c14_1a_new_respects_link_mtu() {
    let is_ipv4: bool = kani::any();
    let link_mtu: u16 = kani::any();
    let cd: u16 = kani::any();
    let s = SegmentSizes::new(SegmentSizesConfig { is_ipv4, link_mtu, probe_expiry_cooldown_packets: cd });
    let ceil = ceiling(is_ipv4, link_mtu);
    kani::cover!(s.min_ss < s.max_ss, "probing range non-empty");
    kani::cover!(link_mtu < 48, "tiny link MTU reachable");
    assert!(inv(&s, ceil), "C14: constructor establishes 1 <= min_ss <= max_ss <= link ceiling");
    assert!(s.max_ss as u32 + hdrs(is_ipv4) as u32 <= core::cmp::max(link_mtu, hdrs(is_ipv4) + 1) as u32,
        "C14: largest datagram fits the configured link MTU");
    let proto_min: u16 = if is_ipv4 { 576 } else { 1280 };
    let want_min = core::cmp::min(proto_min, core::cmp::max(link_mtu, hdrs(is_ipv4) + 1)) - hdrs(is_ipv4);
    assert!(s.min_ss == want_min, "C14: initial segment size is the protocol minimum");
    assert!(s.mss() == s.min_ss && s.max_ss() == s.max_ss, "C14: accessors");
}

// @verif id=C14.2 props=C14,C10 tier=quick
// @functions SegmentSizes::on_payload_delivered
// @bounds every valid state (all u16 values with 1 <= min_ss <= max_ss <= ceil, any ceil <= 65487 = the largest the constructor can produce), every payload_size: usize (incl. sizes far above the link MTU, as a peer may use)
// @asserts max_ss' <= ceil (no size above the link MTU is ever adopted, whatever the peer sends); min_ss <= min_ss' <= max(min_ss, payload) (ordinary size never shrinks, never exceeds what was delivered); min_ss' <= max_ss'; cool-down untouched
// @assumes representation invariant on the pre-state
#[kani::proof]
fn c14_2_delivery_never_exceeds_link_ceiling() {
    let ceil: u16 = kani::any();
    let mut s = any_state(ceil);
    let pre = s;
    let p: usize = kani::any();
    s.on_payload_delivered(p);
    kani::cover!(p > ceil as usize, "payload above the link ceiling reachable (peer uses larger datagrams)");
    kani::cover!(p > pre.min_ss as usize && p <= pre.max_ss as usize, "successful probe reachable");
    assert!(s.max_ss <= ceil, "C14: no segment size above the link MTU ceiling after a delivery report");
    assert!(s.min_ss <= s.max_ss, "C14: min_ss <= max_ss after a delivery report");
    assert!(s.min_ss >= pre.min_ss, "C14: the proven size never shrinks");
    assert!(s.min_ss as usize <= core::cmp::max(pre.min_ss as usize, p), "C14: ordinary size never exceeds what was proven deliverable");
    assert!(s.max_ss >= pre.max_ss, "C14: a delivery never lowers the probe ceiling");
    if p > pre.min_ss as usize && p <= pre.max_ss as usize {
        assert!(s.min_ss as usize == p && s.max_ss == pre.max_ss, "C14: a delivered probe becomes the new ordinary size");
    }
    assert!(s.cooldown_remaining_packets == pre.cooldown_remaining_packets && s.cooldown_max_packets == pre.cooldown_max_packets,
        "C14: delivery leaves the cool-down alone");
}

// @verif id=C14.3 props=C14 tier=quick
// @functions SegmentSizes::next_segment_size, SegmentSizes::next_probe, SegmentSizes::is_probing, SegmentSizes::disarm_cooldown, SegmentSizes::mss
// @bounds every valid state, any ceil <= 65487
// @asserts next size is min_ss (ordinary) or in (min_ss, max_ss] (probe); a probe only when the cool-down had reached 0 and it re-arms the cool-down; sizes untouched; is_probing <=> min_ss < max_ss; disarm zeroes the cool-down
// @assumes representation invariant on the pre-state
#[kani::proof]
fn c14_3_probe_law() {
    let ceil: u16 = kani::any();
    let mut s = any_state(ceil);
    let pre = s;
    assert!(s.is_probing() == (pre.min_ss < pre.max_ss), "C14: is_probing iff the search interval is non-empty");
    let r = s.next_segment_size();
    kani::cover!(r > pre.min_ss, "probe size reachable");
    kani::cover!(r == pre.min_ss && pre.cooldown_remaining_packets > 0, "ordinary size reachable");
    assert!(r >= pre.min_ss && r <= pre.max_ss, "C14: segment size within [min_ss, max_ss]");
    assert!(r <= ceil, "C14: segment size never above the link ceiling");
    if r > pre.min_ss {
        assert!(pre.cooldown_remaining_packets == 0, "C14: oversized probe only after the cool-down expired");
        assert!(s.cooldown_remaining_packets == pre.cooldown_max_packets, "C14: a probe re-arms the cool-down");
    }
    if pre.cooldown_remaining_packets > 0 {
        assert!(r == pre.min_ss, "C14: ordinary segments use exactly the proven size");
        assert!(s.cooldown_remaining_packets == pre.cooldown_remaining_packets - 1, "C14: cool-down counts down");
    }
    assert!(s.min_ss == pre.min_ss && s.max_ss == pre.max_ss, "C14: choosing a size does not move the interval");
    s.disarm_cooldown();
    assert!(s.cooldown_remaining_packets == 0 && s.min_ss == pre.min_ss && s.max_ss == pre.max_ss, "C14: disarm only zeroes the cool-down");
}

// @verif id=C14.4a props=C14 tier=quick
// @functions SegmentSizes::next_segment_size, SegmentSizes::on_probe_failed, SegmentSizes::on_payload_delivered, SegmentSizes::disarm_cooldown
// @bounds every valid state with a non-empty interval, any ceil <= 65487, any true path size T in [min_ss, max_ss]; one probe round (success iff probe <= T)
// @asserts the interval at least halves; T stays inside [min_ss', max_ss']; invariant preserved
// @assumes representation invariant; min_ss <= T <= max_ss (the path carries the proven size and nothing above the link ceiling)
#[kani::proof]
fn c14_4a_probe_round_halves_interval_and_keeps_truth() {
    let ceil: u16 = kani::any();
    let mut s = any_state(ceil);
    kani::assume(s.min_ss < s.max_ss);
    let t: u16 = kani::any();
    kani::assume(s.min_ss <= t && t <= s.max_ss);
    let g = s.max_ss - s.min_ss;
    s.disarm_cooldown();
    let p = s.next_segment_size();
    assert!(p > s.min_ss && p <= s.max_ss, "C14: with a non-empty interval and no cool-down the next size is a probe");
    if p <= t {
        kani::cover!(true, "probe delivered");
        s.on_payload_delivered(p as usize);
    } else {
        kani::cover!(true, "probe black-holed");
        s.on_probe_failed(p as usize);
    }
    assert!(inv(&s, ceil), "C14: invariant after a probe round");
    assert!(s.min_ss <= t && t <= s.max_ss, "C14: the true path size stays inside the search interval");
    assert!(s.max_ss - s.min_ss <= g / 2, "C14: every probe round at least halves the interval");
}

// @verif id=C14.4b props=C14,C10 tier=quick
// @functions SegmentSizes::on_probe_failed
// @bounds every valid state, any ceil <= 65487, every size: usize
// @asserts invariant preserved; max_ss never increases; min_ss untouched
// @assumes representation invariant
#[kani::proof]
fn c14_4b_probe_failed_any_size() {
    let ceil: u16 = kani::any();
    let mut s = any_state(ceil);
    let pre = s;
    let size: usize = kani::any();
    s.on_probe_failed(size);
    kani::cover!(s.max_ss < pre.max_ss, "failure shrinks the interval");
    assert!(inv(&s, ceil), "C14: invariant after a failed probe of any reported size");
    assert!(s.max_ss <= pre.max_ss && s.min_ss == pre.min_ss, "C14: a failed probe only lowers max_ss");
}

// @verif id=C14.4c props=C14 tier=quick
// @functions SegmentSizes::new, SegmentSizes::next_segment_size, SegmentSizes::on_probe_failed, SegmentSizes::on_payload_delivered, SegmentSizes::disarm_cooldown, SegmentSizes::is_probing
// @bounds every link MTU (u16), both families, every true path size T between the protocol minimum and the link ceiling; 17 probe rounds from the constructor's state
// @asserts after at most 17 rounds (log2 of a 16-bit interval + 1) the search has converged: min_ss == max_ss == T, and probing stops
// @assumes black-hole path model: a probe is delivered iff its payload size <= T
#[kani::proof]
#[kani::unwind(19)]
fn c14_4c_converges_in_17_rounds() {
    let is_ipv4: bool = kani::any();
    let link_mtu: u16 = kani::any();
    let mut s = SegmentSizes::new(SegmentSizesConfig { is_ipv4, link_mtu, probe_expiry_cooldown_packets: kani::any() });
    let t: u16 = kani::any();
    kani::assume(s.min_ss <= t && t <= s.max_ss);
    let mut rounds = 0;
    while rounds < 17 && s.is_probing() {
        s.disarm_cooldown();
        let p = s.next_segment_size();
        if p <= t {
            s.on_payload_delivered(p as usize);
        } else {
            s.on_probe_failed(p as usize);
        }
        rounds += 1;
    }
    kani::cover!(rounds >= 10, "long searches reachable");
    assert!(!s.is_probing(), "C14: the search converges within 17 probes");
    assert!(s.min_ss == t && s.max_ss == t, "C14: the search settles on the largest payload size that fits");
}

/// Accessor for the tier-C harnesses: a search state with the given interval and cool-down.
pub fn verif_segment_sizes(min_ss: u16, max_ss: u16, cooldown_remaining: u16, cooldown_max: u16) -> SegmentSizes {
    SegmentSizes { min_ss, max_ss, cooldown_remaining_packets: cooldown_remaining, cooldown_max_packets: cooldown_max }
}
