//! Access helpers for `MsgQueue`'s private fields (injected inside the inline module `msgq`, whose
//! fields are otherwise unreachable from the harness modules of stream_rx.rs). No harnesses here.
#![allow(dead_code)]
use super::*;

impl MsgQueue {
    /// Pre-state written directly (DESIGN C01.R2: never built by a chain of pushes).
    pub fn verif_from(queue: VecDeque<UserRxMessage>, len_bytes: usize, capacity: usize) -> Self {
        Self { queue, len_bytes, capacity }
    }
    pub fn verif_len_bytes(&self) -> usize {
        self.len_bytes
    }
    pub fn verif_capacity(&self) -> usize {
        self.capacity
    }
    pub fn verif_items(&self) -> &VecDeque<UserRxMessage> {
        &self.queue
    }
}
