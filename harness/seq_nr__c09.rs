//! C09.1 — sequence-number arithmetic at full 16-bit width (DESIGN §3 C09).
#![allow(unused_imports)]
use super::*;
use crate::constants::WRAP_TOLERANCE;
use crate::utils::seq_nr_offset;

/// True modular distance new-old as a signed 16-bit value.
fn modular(new: u16, old: u16) -> i16 {
    new.wrapping_sub(old) as i16
}

/// The property fixes the protocol constant: the oracle does not read it from the code.
const TOL: i32 = 1024;

// @verif id=C09.1a props=C09 tier=quick
// @functions utils::seq_nr_offset
// @bounds all (new, old) in u16 x u16 (2^32 pairs), tolerance = the crate's WRAP_TOLERANCE constant; oracle distance bound 1024 fixed in the harness
// @asserts |d| <= 1024 => seq_nr_offset(new, old, WRAP_TOLERANCE) == d, where d = signed 16-bit (new - old)
#[kani::proof]
fn c09_1a_offset_is_modular_distance_within_tolerance() {
    let new: u16 = kani::any();
    let old: u16 = kani::any();
    let d = modular(new, old) as i32;
    let got = seq_nr_offset(new, old, WRAP_TOLERANCE);
    kani::cover!(d == TOL && new < old, "wrap at +tolerance reachable");
    kani::cover!(d == -TOL && new > old, "wrap at -tolerance reachable");
    if d >= -TOL && d <= TOL {
        assert!(got == d as isize, "C09: offset equals true modular distance within the tolerance");
    }
    // outside the tolerance the function falls back to plain (non-modular) subtraction; still total
    assert!(got >= -65535 && got <= 65535, "C09: offset is bounded");
}

// @verif id=C09.1b props=C09 tier=quick
// @functions SeqNr::sub(SeqNr), SeqNr::cmp, SeqNr::partial_cmp, SeqNr::add(u16), SeqNr::sub(u16), utils::seq_nr_offset
// @bounds all a in u16, all k in u16
// @asserts ordering/distance agree with modular distance for |k| <= 1024: (a+k)-a == k, a < a+k, a+k > a, antisymmetry, Eq consistent with cmp
#[kani::proof]
fn c09_1b_seqnr_ord_sub_add_agree() {
    let a: u16 = kani::any();
    let k: u16 = kani::any();
    let x = SeqNr(a);
    let y = x + k;
    assert!(*y == a.wrapping_add(k), "C09: Add<u16> wraps");
    assert!(*(y - k) == a, "C09: Sub<u16> inverts Add<u16>");
    let d = modular(*y, *x) as i32;
    kani::cover!(k == 1024 && a > 65000, "forward wrap case reachable");
    if d >= -TOL && d <= TOL {
        assert!(y - x == d as isize, "C09: SeqNr - SeqNr is the modular distance");
        assert!(x - y == -(d as isize), "C09: distance is antisymmetric");
        assert!((y > x) == (d > 0), "C09: ordering agrees with modular distance (gt)");
        assert!((y < x) == (d < 0), "C09: ordering agrees with modular distance (lt)");
        assert!((y == x) == (d == 0), "C09: equality agrees with modular distance");
        assert!((y >= x) == (d >= 0) && (y <= x) == (d <= 0), "C09: non-strict ordering agrees");
        assert!(y.cmp(&x) == x.cmp(&y).reverse(), "C09: cmp antisymmetric");
    }
}

// @verif id=C09.1c props=C09 tier=quick
// @functions SeqNr::sub(SeqNr), SeqNr::cmp
// @bounds all base s in u16, all shift k in u16, relative offsets i, j in -1024..=1024 with |i-j| <= 1024
// @asserts shift invariance (2-safety): comparing/subtracting s+i and s+j gives the same result as (s+k)+i and (s+k)+j
#[kani::proof]
fn c09_1c_shift_invariance_of_compare_and_distance() {
    let s: u16 = kani::any();
    let k: u16 = kani::any();
    let i: i16 = kani::any();
    let j: i16 = kani::any();
    kani::assume(i >= -1024 && i <= 1024 && j >= -1024 && j <= 1024);
    kani::assume((i as i32 - j as i32).abs() <= TOL);
    let a1 = SeqNr(s.wrapping_add(i as u16));
    let b1 = SeqNr(s.wrapping_add(j as u16));
    let a2 = a1 + k;
    let b2 = b1 + k;
    kani::cover!(a1.0 < 100 && a2.0 > 65500, "one copy near the wrap, the other not");
    assert!(a1 - b1 == a2 - b2, "C09: distance invariant under relabelling");
    assert!(a1.cmp(&b1) == a2.cmp(&b2), "C09: order invariant under relabelling");
    assert!(a1 - b1 == (i as isize - j as isize), "C09: distance equals the relative offset");
}
