//! C01.S3 — `prepare_2_ioslices`: the two-slice view of a byte range of the send ring.
#![allow(unused_imports, dead_code)]
use super::*;

// @verif id=UTIL.io props=C01,C10 tier=quick
// @functions utils::prepare_2_ioslices
// @bounds first and second slice of 0..=6 symbolic bytes each (lengths symbolic); EVERY offset and len: usize
// @asserts Ok([a, b]) <=> offset + len <= total length (no overflow); then a followed by b is exactly (first ++ second)[offset .. offset+len] (checked at an arbitrary index) and a comes from `first`, b from `second`; otherwise one of the two internal range errors, never a panic
#[kani::proof]
#[kani::unwind(8)]
fn util_prepare_2_ioslices() {
    let f: [u8; 6] = kani::any();
    let s: [u8; 6] = kani::any();
    let (fl, sl): (usize, usize) = (kani::any(), kani::any());
    kani::assume(fl <= 6 && sl <= 6);
    let (first, second) = (&f[..fl], &s[..sl]);
    let offset: usize = kani::any();
    let len: usize = kani::any();
    let r = prepare_2_ioslices(first, second, offset, len);
    let total = fl + sl;
    let in_range = offset <= total && len <= total - offset;
    kani::cover!(in_range && offset < fl && offset + len > fl, "range straddles the two slices");
    kani::cover!(!in_range, "out of range request");
    match &r {
        Ok([a, b]) => {
            assert!(in_range, "C01: a byte range is produced only if it lies inside the buffered bytes");
            assert!(a.len() + b.len() == len, "C01: the two slices together have exactly the requested length");
            let i: usize = kani::any();
            if i < len {
                let want = if offset + i < fl { f[offset + i] } else { s[offset + i - fl] };
                let got = if i < a.len() { a[i] } else { b[i - a.len()] };
                assert!(got == want, "C01: the slices are exactly bytes offset..offset+len of the buffered stream, in order");
            }
        }
        Err(_) => assert!(!in_range, "C10: the internal range errors appear only for requests outside the buffer"),
    }
    std::mem::forget(r);
}
