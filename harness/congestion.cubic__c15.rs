//! C15 / C05.2 — CUBIC controller: one event from an arbitrary valid state (DESIGN §3 C15).
//! Stratum 1: ALL f64 bit patterns satisfying the invariant, for facts that follow from clamps,
//! comparisons and assignments. Stratum 2: a 1/16-MSS grid, for facts that need a product/quotient
//! to be re-evaluated by the oracle (bit-blasted 53-bit multipliers are otherwise out of reach).
//! The curve helpers calc_k / w_cubic / w_est are over-approximated by ANY f64 (NaN, +-inf included):
//! every obligation below holds whatever the CUBIC curve evaluates to.
#![allow(unused_imports, dead_code)]
use super::*;
use crate::verif_lib__support::at_ms;

pub fn stub_calc_k(_w: f64) -> f64 {
    kani::any()
}
/// Over-approximation of the curve helpers on the grid stratum: any multiple of 1/16 in
/// (-4096, 4096), or NaN, +inf, -inf.
fn any_curve_value() -> f64 {
    let sel: u8 = kani::any();
    let g: i32 = kani::any();
    kani::assume(g > -65536 && g < 65536);
    match sel {
        0 => f64::NAN,
        1 => f64::INFINITY,
        2 => f64::NEG_INFINITY,
        _ => g as f64 / 16.0,
    }
}
/// w_cubic over-approximated by the three extreme values only (a finite symbolic numerator in
/// `(w_cubic - cwnd) / cwnd` puts a full f64 divider in front of the SAT solver: every such query timed
/// out). Finite curve values are therefore exercised through w_est (TCP-friendly region) only.
pub fn stub_w_cubic(_t: Duration, _k: f64, _w: f64) -> f64 {
    let sel: u8 = kani::any();
    match sel {
        0 => f64::NAN,
        1 => f64::INFINITY,
        _ => f64::NEG_INFINITY,
    }
}
pub fn stub_w_est(_t: Duration, _rtt: Duration, _w: f64) -> f64 {
    any_curve_value()
}

fn inv(c: &Cubic) -> bool {
    c.mss >= 1
        && c.rwnd.is_finite() && c.rwnd >= 0.0
        && c.cwnd.is_finite() && c.cwnd > 0.0
        && !c.ssthresh.is_nan() && c.ssthresh >= 2.0
        && c.w_max.is_finite() && c.w_max >= 0.0
        && c.w_max_last.is_finite() && c.w_max_last >= 0.0
        && c.k.is_finite()
}

/// every f64 state satisfying the invariant
fn any_state() -> Cubic {
    let mss: u16 = kani::any();
    let c = Cubic {
        cwnd: kani::any(),
        ssthresh: kani::any(),
        k: kani::any(),
        w_max: kani::any(),
        w_max_last: kani::any(),
        mss: mss as usize,
        last_congestion_event: at_ms(kani::any::<u32>() as u64),
        rwnd: kani::any(),
    };
    kani::assume(inv(&c));
    c
}

/// grid state: windows are multiples of 1/16 MSS below 4096 MSS
fn grid_state() -> Cubic {
    let mss: u16 = kani::any();
    let n: u16 = kani::any();
    let m: u16 = kani::any();
    let t: u16 = kani::any();
    let w: u16 = kani::any();
    let wl: u16 = kani::any();
    kani::assume(mss >= 1 && n >= 1 && t >= 32);
    Cubic {
        cwnd: n as f64 / 16.0,
        ssthresh: if kani::any() { f64::INFINITY } else { t as f64 / 16.0 },
        k: 0.0,
        w_max: w as f64 / 16.0,
        w_max_last: wl as f64 / 16.0,
        mss: mss as usize,
        last_congestion_event: at_ms(1000),
        rwnd: m as f64 / 16.0,
    }
}

/// The window in MSS units as `window()` clamps it: between two segments (or the peer window if
/// smaller) and the peer window.
fn clamped(c: &Cubic) -> f64 {
    c.cwnd.max(2.0).min(c.rwnd)
}

fn same_bits(a: &Cubic, b: &Cubic) -> bool {
    a.cwnd.to_bits() == b.cwnd.to_bits()
        && a.ssthresh.to_bits() == b.ssthresh.to_bits()
        && a.k.to_bits() == b.k.to_bits()
        && a.w_max.to_bits() == b.w_max.to_bits()
        && a.w_max_last.to_bits() == b.w_max_last.to_bits()
        && a.mss == b.mss
        && a.rwnd.to_bits() == b.rwnd.to_bits()
        && a.last_congestion_event == b.last_congestion_event
}

fn window_sane(c: &Cubic) -> bool {
    let w = clamped(c);
    w.is_finite() && w <= c.rwnd && w >= 2.0f64.min(c.rwnd)
}

// @verif id=C15.0 props=C15,C05,C10 tier=quick
// @functions Cubic::new, Cubic::set_remote_window, Cubic::window, Cubic::smss
// @bounds constructor for every mss: u16 >= 1; then set_remote_window(any u32)
// @asserts initial window is two segments, ssthresh +inf (slow start), invariant holds; rwnd finite >= 0 after any peer-window update, nothing else changes
#[kani::proof]
#[kani::unwind(3)]
fn c15_0_new_and_remote_window() {
    let mss: u16 = kani::any();
    kani::assume(mss >= 1);
    let mut c = Cubic::new(at_ms(5), mss as usize);
    assert!(c.cwnd == 2.0 && c.ssthresh == f64::INFINITY && c.rwnd == 0.0 && c.smss() == mss as usize, "C05: a connection starts with a two-segment window in slow start");
    let pre = c;
    let win: u32 = kani::any();
    c.set_remote_window(win as usize);
    assert!(c.rwnd.is_finite() && c.rwnd >= 0.0, "C15: peer window is a finite non-negative number of segments");
    assert!(c.cwnd.to_bits() == pre.cwnd.to_bits() && c.ssthresh.to_bits() == pre.ssthresh.to_bits() && c.mss == pre.mss, "C15: a peer-window update changes only rwnd");
    assert!(inv(&c) && window_sane(&c), "C15: invariant after peer-window update");
    if win == 0 {
        assert!(c.window() == 0, "C05: zero peer window => zero send window");
    }
    kani::cover!(true, "end of harness reachable (assumptions satisfiable, no unconditional failure)");
}

// @verif id=C15.1a props=C15 tier=quick timeout=900
// @functions Cubic::on_ack (both early returns)
// @bounds EVERY f64 state satisfying the invariant; len == 0 with any state, or any len: u32 with cwnd >= rwnd (window already at the peer limit); any now
// @asserts the state is bit-identical afterwards (zero-length ACKs and ACKs at the peer limit neither grow nor shrink the window); invariant and window bounds
// @assumes inv_cubic on the pre-state (mss >= 1; rwnd finite >= 0; cwnd finite > 0; ssthresh >= 2 or +inf; w_max, w_max_last finite >= 0)
#[kani::proof]
#[kani::unwind(3)]
#[kani::stub(crate::congestion::cubic::w_cubic, stub_w_cubic)]
#[kani::stub(crate::congestion::cubic::w_est, stub_w_est)]
fn c15_1a_on_ack_early_returns_all_doubles() {
    let mut c = any_state();
    let pre = c;
    let len: u32 = kani::any();
    kani::assume(len == 0 || c.cwnd >= c.rwnd);
    let rtte = RttEstimator::default();
    c.on_ack(at_ms(kani::any::<u32>() as u64), len as usize, &rtte);
    kani::cover!(len > 0, "ACK at the peer limit");
    assert!(same_bits(&c, &pre), "C15: zero-length ACKs and a window already at the peer limit change nothing");
    assert!(inv(&c), "C15: invariant after on_ack");
}

// @verif id=C15.1b props=C15 tier=quick timeout=900
// @functions Cubic::on_ack (congestion-avoidance branch: TCP-friendly and concave/convex regions)
// @bounds grid states with cwnd >= ssthresh and cwnd < rwnd; mss any u16 >= 1; len any u16 > 0; any now; w_est returns any multiple of 1/16 in (-4096, 4096), NaN, +inf or -inf (TCP-friendly region with arbitrary values); w_cubic returns NaN, +inf or -inf (concave/convex region with extreme values only)
// @asserts cwnd' finite with 2 <= cwnd' <= max(rwnd, 2) whatever the curve evaluates to; ssthresh/w_max/mss/rwnd untouched; invariant and window bounds
// @assumes grid pre-state
// @stubs cubic::w_est -> any grid value or NaN/+-inf; cubic::w_cubic -> NaN/+inf/-inf (no CBMC model for powf/cbrt)
// @outside non-grid doubles; finite w_cubic values in the concave/convex update (the final clamp that bounds the result is the same statement on every path)
#[kani::proof]
#[kani::unwind(3)]
#[kani::stub(crate::congestion::cubic::w_cubic, stub_w_cubic)]
#[kani::stub(crate::congestion::cubic::w_est, stub_w_est)]
fn c15_1b_on_ack_congestion_avoidance_grid() {
    let mut c = grid_state();
    let pre = c;
    let len: u16 = kani::any();
    kani::assume(len > 0 && c.cwnd < c.rwnd && c.cwnd >= c.ssthresh);
    let rtte = RttEstimator::default();
    let dt: u32 = kani::any();
    c.on_ack(c.last_congestion_event + Duration::from_millis(dt as u64), len as usize, &rtte);
    kani::cover!(c.cwnd > pre.cwnd, "window grew in congestion avoidance");
    assert!(c.cwnd.is_finite() && c.cwnd >= 2.0 && c.cwnd <= pre.rwnd.max(2.0), "C15: after an ACK the window is a finite number within [2, max(peer window, 2)]");
    assert!(c.ssthresh.to_bits() == pre.ssthresh.to_bits() && c.w_max.to_bits() == pre.w_max.to_bits() && c.mss == pre.mss && c.rwnd.to_bits() == pre.rwnd.to_bits(),
        "C15: congestion avoidance touches only cwnd");
    assert!(inv(&c) && window_sane(&c), "C15: invariant and window bounds after on_ack");
}

// @verif id=C15.2a props=C15,C05,C06 tier=quick timeout=900
// @functions Cubic::on_retransmission_timeout
// @bounds grid states; mss any u16 >= 1
// @asserts cwnd' == 1 segment (the dispatcher sends a single segment: clamped window == min(2, rwnd)); the clamped window never increases; ssthresh' >= 2 and == max(0.7 * cwnd, 2); w_max' == cwnd; invariant
// @assumes grid pre-state
// @outside non-grid doubles for the product 0.7*cwnd
#[kani::proof]
#[kani::unwind(3)]
fn c15_2a_rto_grid() {
    let mut c = grid_state();
    let pre = c;
    c.on_retransmission_timeout(at_ms(kani::any::<u32>() as u64));
    kani::cover!(pre.cwnd > 10.0 && pre.rwnd > 20.0, "timeout from a large window");
    assert!(c.cwnd == 1.0, "C05: after a retransmission timeout the window is one segment");
    assert!(clamped(&c) <= clamped(&pre), "C15: a retransmission timeout never increases the window");
    assert!(c.ssthresh >= 2.0, "C15: ssthresh at least two segments");
    assert!(c.ssthresh == (pre.cwnd * 0.7).max(2.0), "C15: ssthresh is 0.7 of the previous window, at least two segments");
    assert!(c.w_max.to_bits() == pre.cwnd.to_bits() && c.rwnd.to_bits() == pre.rwnd.to_bits() && c.mss == pre.mss, "C15: RTO bookkeeping");
    assert!(inv(&c) && window_sane(&c), "C15: invariant and window bounds after RTO");
}

// @verif id=C15.2b props=C15,C06 tier=quick timeout=900
// @functions Cubic::on_enter_recovery
// @bounds grid states; calc_k returns ANY f64
// @asserts cwnd' == 0.7 * cwnd; ssthresh' == max(cwnd', 2) (0.7 of the previous window, at least two segments); w_max_last' == cwnd; last_congestion_event' == now; rwnd/mss untouched
// @assumes grid pre-state
// @stubs cubic::calc_k -> any f64
// @outside non-grid doubles
#[kani::proof]
#[kani::unwind(3)]
#[kani::stub(crate::congestion::cubic::calc_k, stub_calc_k)]
fn c15_2b_enter_recovery_grid() {
    let mut c = grid_state();
    let pre = c;
    let now = at_ms(kani::any::<u32>() as u64);
    c.on_enter_recovery(now);
    kani::cover!(pre.cwnd < pre.w_max_last, "fast convergence branch");
    assert!(c.cwnd == pre.cwnd * 0.7, "C15: entering recovery multiplies the window by 0.7");
    assert!(c.ssthresh == c.cwnd.max(2.0) && c.ssthresh >= 2.0, "C15: ssthresh is 0.7 of the previous window, at least two segments");
    assert!(c.w_max_last.to_bits() == pre.cwnd.to_bits() && c.last_congestion_event == now, "C15: loss event recorded");
    assert!(c.rwnd.to_bits() == pre.rwnd.to_bits() && c.mss == pre.mss, "C15: recovery entry leaves rwnd and mss alone");
    assert!(c.w_max.is_finite() && c.w_max >= 0.0, "C15: w_max stays a finite non-negative number");
}

// @verif id=C15.2c props=C15,C06 tier=quick timeout=900
// @functions Cubic::on_enter_recovery, Cubic::on_retransmission_timeout
// @bounds grid states: cwnd, rwnd, ssthresh, w_max in {n/16 : n < 65536} (windows up to 4096 MSS in 1/16 steps), mss any u16 >= 1
// @asserts neither loss event increases the clamped window (needs 0.7*x <= x, decided on the grid); cwnd' stays finite > 0; invariant preserved
// @assumes grid pre-state
// @stubs cubic::calc_k -> any finite f64
// @outside non-grid doubles for the product fact 0.7*x <= x
#[kani::proof]
#[kani::unwind(3)]
#[kani::stub(crate::congestion::cubic::calc_k, stub_calc_k)]
fn c15_2c_loss_events_never_increase_window_grid() {
    let mut c = grid_state();
    let pre = c;
    if kani::any() {
        c.on_enter_recovery(at_ms(2000));
        kani::assume(c.k.is_finite());
        assert!(c.cwnd > 0.0 && c.cwnd <= pre.cwnd, "C15: entering fast recovery never increases the window");
    } else {
        c.on_retransmission_timeout(at_ms(2000));
    }
    assert!(clamped(&c) <= clamped(&pre), "C15: a loss event never increases the clamped window");
    assert!(inv(&c), "C15: invariant after a loss event");
    kani::cover!(true, "end of harness reachable (assumptions satisfiable, no unconditional failure)");
}

// @verif id=C15.3 props=C15,C05 tier=quick timeout=900
// @functions Cubic::on_ack (slow start), Cubic::window
// @bounds grid states with cwnd < ssthresh, cwnd < rwnd, 2 <= cwnd; mss a power of two 1..=32768 (the quotient len/mss is then exact); len: u16 > 0
// @asserts cwnd' == max(min(cwnd + len/mss, rwnd), 2); hence growth in bytes cwnd'*mss - cwnd*mss <= len: in slow start one ACK grows the window by at most the bytes it acknowledged
// @assumes grid pre-state; mss power of two
// @outside arbitrary mss for the byte-level statement (non-power-of-two quotients round)
#[kani::proof]
#[kani::unwind(3)]
fn c15_3_slow_start_growth_bounded_by_acked_bytes_grid() {
    let mut c = grid_state();
    let sh: u8 = kani::any();
    kani::assume(sh <= 15);
    c.mss = 1usize << sh;
    kani::assume(c.cwnd >= 2.0 && c.cwnd < c.ssthresh && c.cwnd < c.rwnd);
    let pre = c;
    let len: u16 = kani::any();
    kani::assume(len > 0);
    let rtte = RttEstimator::default();
    c.on_ack(at_ms(3000), len as usize, &rtte);
    let q = len as f64 / pre.mss as f64;
    kani::cover!(c.cwnd < pre.rwnd && c.cwnd > pre.cwnd, "growth below the peer window");
    assert!(c.cwnd == (pre.cwnd + q).min(pre.rwnd).max(2.0), "C15: slow start adds acked_bytes/mss, clamped");
    assert!(c.cwnd.is_finite() && c.cwnd >= 2.0 && c.cwnd <= pre.rwnd.max(2.0), "C15: after an ACK the window is a finite number within [2, max(peer window, 2)]");
    assert!(c.ssthresh.to_bits() == pre.ssthresh.to_bits() && c.w_max.to_bits() == pre.w_max.to_bits() && c.mss == pre.mss && c.rwnd.to_bits() == pre.rwnd.to_bits(),
        "C15: slow start touches only cwnd");
    assert!(inv(&c) && window_sane(&c), "C15: invariant and window bounds after on_ack");
    assert!(c.cwnd >= pre.cwnd, "C15: an ACK never shrinks the window in slow start");
    assert!((c.cwnd - pre.cwnd) * pre.mss as f64 <= len as f64, "C15: in slow start one ACK grows the window by at most the bytes it acknowledged");
}

// @verif id=C15.4a props=C15 tier=quick timeout=900
// @functions Cubic::set_mss
// @bounds EVERY f64 state satisfying the invariant; new mss any u16 >= 1
// @asserts unchanged mss: identity (bit-identical state); changed mss: mss' == new value, rwnd, k, last_congestion_event untouched, cwnd' is NOT reset (positive, finite or overflowed only if the pre-state was huge)
// @assumes inv_cubic on the pre-state
#[kani::proof]
#[kani::unwind(3)]
fn c15_4a_set_mss_all_doubles() {
    let mut c = any_state();
    let pre = c;
    let m: u16 = kani::any();
    kani::assume(m >= 1);
    c.set_mss(m as usize);
    kani::cover!(m as usize != pre.mss, "mss changed");
    if m as usize == pre.mss {
        assert!(same_bits(&c, &pre), "C15: setting the same MSS is the identity");
    } else {
        assert!(c.mss == m as usize, "C15: mss updated");
        assert!(c.rwnd.to_bits() == pre.rwnd.to_bits() && c.k.to_bits() == pre.k.to_bits() && c.last_congestion_event == pre.last_congestion_event,
            "C15: an MSS change leaves rwnd, k and the loss timestamp alone");
        assert!(c.cwnd > 0.0 || pre.cwnd < 1e-300, "C15: an MSS change rescales the window, it does not reset it to zero");
    }
}

// @verif id=C15.4b props=C15 tier=quick timeout=900
// @functions Cubic::set_mss
// @bounds grid states; old and new mss powers of two in 1..=32768 (rescaling by a power of two is exact in binary floating point)
// @asserts cwnd'*mss' == cwnd*mss exactly (same bytes), same factor for ssthresh, w_max, w_max_last
// @assumes grid pre-state; power-of-two sizes
// @outside arbitrary (non power-of-two) sizes: the rescale then rounds (relative error <= 2^-52 per operation), not asserted
#[kani::proof]
#[kani::unwind(3)]
fn c15_4b_set_mss_same_bytes_grid_pow2() {
    let mut c = grid_state();
    let a: u8 = kani::any();
    let b: u8 = kani::any();
    kani::assume(a <= 15 && b <= 15);
    c.mss = 1usize << a;
    let pre = c;
    let new_mss = 1usize << b;
    c.set_mss(new_mss);
    kani::cover!(a != b, "mss changed");
    assert!(c.cwnd * new_mss as f64 == pre.cwnd * pre.mss as f64, "C15: changing the MSS keeps the window the same number of bytes");
    assert!(c.w_max * new_mss as f64 == pre.w_max * pre.mss as f64, "C15: w_max rescaled by the same factor");
    if pre.ssthresh.is_finite() {
        assert!(c.ssthresh * new_mss as f64 == pre.ssthresh * pre.mss as f64, "C15: ssthresh rescaled by the same factor");
    } else {
        assert!(c.ssthresh == f64::INFINITY, "C15: infinite ssthresh stays infinite");
    }
}

// @verif id=C15.5 props=C15,C06,C10 tier=quick timeout=900
// @functions Cubic::on_recovered, Cubic::sshthresh, Cubic::window
// @bounds EVERY f64 state satisfying the invariant; new_cwnd_bytes, new_sshthresh any u32
// @asserts cwnd' finite within [2, max(rwnd, 2)]; ssthresh' finite >= 0; window bounds hold; no panic in window()/sshthresh() casts
// @assumes inv_cubic on the pre-state
#[kani::proof]
#[kani::unwind(3)]
fn c15_5_on_recovered_all_doubles() {
    let mut c = any_state();
    let pre = c;
    let a: u32 = kani::any();
    let b: u32 = kani::any();
    c.on_recovered(a as usize, b as usize);
    assert!(c.cwnd.is_finite() && c.cwnd >= 2.0 && c.cwnd <= pre.rwnd.max(2.0), "C15: after recovery the window is within [2, max(peer window, 2)]");
    assert!(c.ssthresh.is_finite() && c.ssthresh >= 0.0, "C15: ssthresh finite after recovery");
    assert!(window_sane(&c), "C15: window bounds after recovery");
    let _ = c.window();
    let _ = c.sshthresh();
    kani::cover!(true, "end of harness reachable (assumptions satisfiable, no unconditional failure)");
}

// @verif id=C15.6 props=C15,C05 tier=quick timeout=900
// @functions Cubic::window
// @bounds grid states; mss a power of two 1..=32768; peer window = m/16 segments
// @asserts window() in bytes <= ceil(rwnd * mss) (never above the peer window) and >= floor(min(2, rwnd) * mss) (two segments or the peer window if smaller)
// @assumes grid pre-state
#[kani::proof]
#[kani::unwind(3)]
fn c15_6_window_bytes_bounds_grid() {
    let mut c = grid_state();
    let sh: u8 = kani::any();
    kani::assume(sh <= 15);
    c.mss = 1usize << sh;
    let w = c.window() as f64;
    let hi = c.rwnd * c.mss as f64;
    let lo = 2.0f64.min(c.rwnd) * c.mss as f64;
    kani::cover!(c.rwnd > 2.0 && c.cwnd > 2.0 && c.cwnd < c.rwnd, "window strictly between the bounds");
    assert!(w <= hi, "C15: the send window never exceeds the peer window");
    assert!(w + 1.0 > lo, "C15: the send window is at least two segments, or the peer window if smaller");
}

// ---- all-f64 variants (stratum 1) --------------------------------------------------------------

pub fn stub_w_cubic_any(_t: Duration, _k: f64, _w: f64) -> f64 {
    kani::any()
}
pub fn stub_w_est_any(_t: Duration, _rtt: Duration, _w: f64) -> f64 {
    kani::any()
}

// @verif id=C15.1c props=C15,C10 tier=quick timeout=900
// @functions Cubic::on_ack (all branches)
// @bounds EVERY f64 state satisfying the invariant; len any u32; any now; w_cubic / w_est return ANY f64 (NaN, +-inf included)
// @asserts cwnd' finite within [2, max(rwnd, 2)] unless the call returned early (then unchanged); ssthresh/w_max/mss/rwnd untouched; invariant and window bounds
// @assumes inv_cubic on the pre-state
// @stubs cubic::w_cubic, cubic::w_est -> kani::any::<f64>()
#[kani::proof]
#[kani::unwind(3)]
#[kani::stub(crate::congestion::cubic::w_cubic, stub_w_cubic_any)]
#[kani::stub(crate::congestion::cubic::w_est, stub_w_est_any)]
fn c15_1c_on_ack_all_branches_all_doubles() {
    let mut c = any_state();
    let pre = c;
    let len: u32 = kani::any();
    let rtte = RttEstimator::default();
    c.on_ack(at_ms(kani::any::<u32>() as u64), len as usize, &rtte);
    kani::cover!(pre.cwnd >= pre.ssthresh && pre.cwnd < pre.rwnd && len > 0 && c.cwnd > pre.cwnd, "growth in congestion avoidance");
    kani::cover!(pre.cwnd < pre.ssthresh && pre.cwnd < pre.rwnd && len > 0 && c.cwnd > pre.cwnd, "growth in slow start");
    if len == 0 || pre.cwnd >= pre.rwnd {
        assert!(same_bits(&c, &pre), "C15: zero-length ACKs and a window already at the peer limit change nothing");
    } else {
        assert!(c.cwnd.is_finite() && c.cwnd >= 2.0 && c.cwnd <= pre.rwnd.max(2.0), "C15: after an ACK the window is a finite number within [2, max(peer window, 2)]");
    }
    assert!(c.ssthresh.to_bits() == pre.ssthresh.to_bits() && c.w_max.to_bits() == pre.w_max.to_bits() && c.mss == pre.mss && c.rwnd.to_bits() == pre.rwnd.to_bits(),
        "C15: an ACK touches only cwnd");
    assert!(inv(&c) && window_sane(&c), "C15: invariant and window bounds after on_ack");
}

// (an all-f64 variant of the two loss events was tried: the products 0.7*cwnd compared against an
// independently evaluated product did not finish in 300 s; those facts are decided on the grid in
// C15.2a/b/c.)
