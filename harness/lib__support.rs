//! Shared harness support (injected at the crate root as `crate::verif_lib__support`).
//!
//! Everything here is part of the *claim* of every harness that uses it: the stubs listed below
//! replace the named functions in the verified program (Kani `-Z stubbing`).
#![allow(dead_code, static_mut_refs, unused_imports)]

use std::task::{RawWaker, RawWakerVTable, Waker};
use std::time::{Duration, Instant};

// ------------------------------------------------------------------------------------------
// Time: `Instant` has no public constructor besides `now()` (clock_gettime FFI, no CBMC model).
// A zeroed Instant is a valid value of the type on Linux (Timespec{0,0}); harness instants are
// `base() + symbolic Duration`.
pub fn base() -> Instant {
    unsafe { std::mem::zeroed() }
}
pub fn at_ms(ms: u64) -> Instant {
    base() + Duration::from_millis(ms)
}
pub fn at_us(us: u64) -> Instant {
    base() + Duration::from_micros(us)
}

// ------------------------------------------------------------------------------------------
// Wakers. A real `Waker` built from a harness vtable; the data pointer is a small id. Wake counts
// are kept per id. Under Kani `Waker::{wake, wake_by_ref, drop}` are stubbed (function-pointer
// aliasing, DESIGN §2.2) and the stubs update the same counters through `Waker::data()`; in native
// playback the un-stubbed std code calls the vtable functions below. Same observable either way.
pub const NWAKERS: usize = 4;
pub static mut WAKES: [usize; NWAKERS] = [0; NWAKERS];

fn rw_clone(p: *const ()) -> RawWaker {
    RawWaker::new(p, &VT)
}
fn rw_wake(p: *const ()) {
    unsafe {
        let i = p as usize;
        if i < NWAKERS {
            WAKES[i] += 1;
        }
    }
}
fn rw_drop(_: *const ()) {}
static VT: RawWakerVTable = RawWakerVTable::new(rw_clone, rw_wake, rw_wake, rw_drop);

/// ids: 0 = dispatcher task, 1 = writer task, 2 = reader task, 3 = spare
pub fn waker(id: usize) -> Waker {
    unsafe { Waker::from_raw(RawWaker::new(id as *const (), &VT)) }
}
pub fn wakes(id: usize) -> usize {
    unsafe { WAKES[id] }
}
pub fn waker_id(w: &Waker) -> usize {
    w.data() as usize
}
pub fn slot_is(slot: &Option<Waker>, id: usize) -> bool {
    match slot {
        Some(w) => waker_id(w) == id,
        None => false,
    }
}

pub fn stub_waker_wake(w: Waker) {
    rw_wake(w.data());
    std::mem::forget(w);
}
pub fn stub_waker_wake_by_ref(w: &Waker) {
    rw_wake(w.data());
}
pub fn stub_waker_drop(_w: &mut Waker) {}

// ------------------------------------------------------------------------------------------
// `std::panic::catch_unwind`: kani-compiler 0.68 ICEs on the `catch_unwind` intrinsic
// (intrinsics.rs:243). Kani aborts on the first panic anyway, so "run the closure" is the exact model.
// Usage: `use std::panic as stdpanic; #[kani::stub(stdpanic::catch_unwind, crate::verif_lib__support::stub_catch_unwind)]`
pub fn stub_catch_unwind<F: FnOnce() -> R + std::panic::UnwindSafe, R>(f: F) -> std::thread::Result<R> {
    Ok(f())
}

// ------------------------------------------------------------------------------------------
// Formatting and logging-clock stubs.
pub fn stub_format(_a: std::fmt::Arguments<'_>) -> String {
    String::new()
}
pub fn stub_systemtime_now() -> std::time::SystemTime {
    std::time::UNIX_EPOCH
}

// ------------------------------------------------------------------------------------------
// parking_lot slow paths: a single-threaded harness that reaches one has self-deadlocked.
pub fn stub_rw_lock_excl_slow(_s: &parking_lot::RawRwLock, _t: Option<Instant>) -> bool {
    panic!("verif: RwLock exclusive lock contended in a sequential harness (self-deadlock)")
}
pub fn stub_rw_unlock_excl_slow(_s: &parking_lot::RawRwLock, _f: bool) {
    panic!("verif: RwLock unlock slow path")
}
pub fn stub_rw_lock_shared_slow(_s: &parking_lot::RawRwLock, _r: bool, _t: Option<Instant>) -> bool {
    panic!("verif: RwLock shared lock contended in a sequential harness (self-deadlock)")
}
pub fn stub_rw_unlock_shared_slow(_s: &parking_lot::RawRwLock) {
    panic!("verif: RwLock unlock-shared slow path")
}
pub fn stub_mx_lock_slow(_s: &parking_lot::RawMutex, _t: Option<Instant>) -> bool {
    panic!("verif: Mutex contended in a sequential harness (self-deadlock)")
}
pub fn stub_mx_unlock_slow(_s: &parking_lot::RawMutex, _f: bool) {
    panic!("verif: Mutex unlock slow path")
}

/// Tier-A harness: no stubs except string formatting on error paths.
#[macro_export]
macro_rules! verif_tier_a {
    ($(#[$m:meta])* fn $name:ident() $body:block) => {
        #[kani::proof]
        #[kani::stub(alloc::fmt::format, crate::verif_lib__support::stub_format)]
        $(#[$m])*
        fn $name() $body
    };
}

/// Tier-B harness: locks + wakers + formatting stubbed (DESIGN §2.2).
#[macro_export]
macro_rules! verif_tier_b {
    ($(#[$m:meta])* fn $name:ident() $body:block) => {
        #[kani::proof]
        #[kani::stub(alloc::fmt::format, crate::verif_lib__support::stub_format)]
        #[kani::stub(std::time::SystemTime::now, crate::verif_lib__support::stub_systemtime_now)]
        #[kani::stub(parking_lot::raw_rwlock::RawRwLock::lock_exclusive_slow, crate::verif_lib__support::stub_rw_lock_excl_slow)]
        #[kani::stub(parking_lot::raw_rwlock::RawRwLock::unlock_exclusive_slow, crate::verif_lib__support::stub_rw_unlock_excl_slow)]
        #[kani::stub(parking_lot::raw_rwlock::RawRwLock::lock_shared_slow, crate::verif_lib__support::stub_rw_lock_shared_slow)]
        #[kani::stub(parking_lot::raw_rwlock::RawRwLock::unlock_shared_slow, crate::verif_lib__support::stub_rw_unlock_shared_slow)]
        #[kani::stub(parking_lot::raw_mutex::RawMutex::lock_slow, crate::verif_lib__support::stub_mx_lock_slow)]
        #[kani::stub(parking_lot::raw_mutex::RawMutex::unlock_slow, crate::verif_lib__support::stub_mx_unlock_slow)]
        #[kani::stub(std::task::Waker::wake, crate::verif_lib__support::stub_waker_wake)]
        #[kani::stub(std::task::Waker::wake_by_ref, crate::verif_lib__support::stub_waker_wake_by_ref)]
        #[kani::stub(<std::task::Waker as std::ops::Drop>::drop, crate::verif_lib__support::stub_waker_drop)]
        $(#[$m])*
        fn $name() $body
    };
}
