//! C11 / C10.1 — wire format: the real parser against an independent BEP-29 reference parser over
//! every byte string up to a length bound; serialisation round-trip over every header value
//! (DESIGN §3 C11.1–C11.4).
#![allow(unused_imports)]
use super::*;
use crate::message::UtpMessage;
use crate::raw::ext_close_reason::LibTorrentCloseReason;
use crate::raw::selective_ack::SelectiveAck;

/// What an independent reader of BEP-29 extracts from a datagram.
#[derive(Clone, Copy)]
pub struct RefHeader {
    pub typ: u8,
    pub version: u8,
    pub connection_id: u16,
    pub ts: u32,
    pub ts_diff: u32,
    pub wnd: u32,
    pub seq_nr: u16,
    pub ack_nr: u16,
    /// last selective-ack extension seen: (first 8 bytes zero padded, length in bytes)
    pub sack: Option<([u8; 8], usize)>,
    /// last 4-byte extension with id 3 (libtorrent close reason), low 16 bits
    pub close_reason: Option<u16>,
    pub header_len: usize,
}

fn be16(b: &[u8], i: usize) -> u16 {
    ((b[i] as u16) << 8) | b[i + 1] as u16
}
fn be32(b: &[u8], i: usize) -> u32 {
    ((b[i] as u32) << 24) | ((b[i + 1] as u32) << 16) | ((b[i + 2] as u32) << 8) | b[i + 3] as u32
}

/// Reference BEP-29 header parser written from the specification: 20 fixed bytes, version nibble 1,
/// type 0..=4, then a chain of (next_id, len, data[len]) extensions which must fit in the datagram.
pub fn ref_parse(b: &[u8]) -> Option<RefHeader> {
    if b.len() < 20 {
        return None;
    }
    let typ = b[0] >> 4;
    let version = b[0] & 0x0f;
    if version != 1 || typ > 4 {
        return None;
    }
    let mut h = RefHeader {
        typ,
        version,
        connection_id: be16(b, 2),
        ts: be32(b, 4),
        ts_diff: be32(b, 8),
        wnd: be32(b, 12),
        seq_nr: be16(b, 16),
        ack_nr: be16(b, 18),
        sack: None,
        close_reason: None,
        header_len: 20,
    };
    let mut id = b[1];
    let mut pos = 20usize;
    while id != 0 {
        if pos + 2 > b.len() {
            return None;
        }
        let next = b[pos];
        let l = b[pos + 1] as usize;
        if pos + 2 + l > b.len() {
            return None;
        }
        if id == 1 {
            let mut d = [0u8; 8];
            let mut i = 0;
            while i < 8 {
                if i < l {
                    d[i] = b[pos + 2 + i];
                }
                i += 1;
            }
            h.sack = Some((d, l));
        } else if id == 3 && l == 4 {
            h.close_reason = Some(be32(b, pos + 2) as u16);
        }
        pos += 2 + l;
        id = next;
    }
    h.header_len = pos;
    Some(h)
}

fn type_num(t: Type) -> u8 {
    match t {
        Type::ST_DATA => 0,
        Type::ST_FIN => 1,
        Type::ST_STATE => 2,
        Type::ST_RESET => 3,
        Type::ST_SYN => 4,
    }
}

/// Field-by-field agreement between the real parse result and the reference (no bitvec `==`).
fn agree(h: &UtpHeader, n: usize, r: &RefHeader) -> bool {
    let mut ok = type_num(h.htype) == r.typ
        && h.connection_id.0 == r.connection_id
        && h.timestamp_microseconds == r.ts
        && h.timestamp_difference_microseconds == r.ts_diff
        && h.wnd_size == r.wnd
        && h.seq_nr.0 == r.seq_nr
        && h.ack_nr.0 == r.ack_nr
        && n == r.header_len;
    match (h.extensions.selective_ack, r.sack) {
        (None, None) => {}
        (Some(s), Some((d, l))) => {
            let raw = s.as_bytes();
            ok &= raw.len() == 8 && s.len() == l * 8;
            let mut i = 0;
            while i < 8 {
                ok &= raw[i] == d[i];
                i += 1;
            }
        }
        _ => ok = false,
    }
    match (h.extensions.close_reason, r.close_reason) {
        (None, None) => {}
        (Some(c), Some(rc)) => ok &= c.0 == rc,
        _ => ok = false,
    }
    ok
}

fn differential<const L: usize>() {
    let buf: [u8; L] = kani::any();
    let len: usize = kani::any();
    kani::assume(len <= L);
    let b = &buf[..len];
    let real = UtpHeader::deserialize(b);
    let reference = ref_parse(b);
    kani::cover!(reference.is_some() && reference.unwrap().header_len > 24, "accepted datagram with an extension chain");
    kani::cover!(reference.is_none() && len >= 20 && (buf[0] & 0x0f) == 1 && (buf[0] >> 4) <= 4, "rejected because the chain does not fit");
    match (real, reference) {
        (None, None) => {}
        (Some((h, n)), Some(r)) => {
            assert!(agree(&h, n, &r), "C11: parsed header agrees with the reference BEP-29 parser (fields, extensions, payload boundary)");
            assert!(n <= len, "C11: header length never exceeds the datagram");
        }
        (Some(_), None) => assert!(false, "C11: parser accepted a datagram the reference parser rejects"),
        (None, Some(_)) => assert!(false, "C11: parser rejected a datagram the reference parser accepts"),
    }
}

// @verif id=C11.1 props=C11,C10 tier=quick timeout=900
// @functions UtpHeader::deserialize, raw::Type::from_number, SelectiveAck::deserialize, LibTorrentCloseReason::parse
// @bounds EVERY byte string of length 0..=40 (all 2^320 buffers x 41 lengths): all type/version nibbles, all extension chains that fit (up to 10 chained extensions), unknown ids, SACKs of any length
// @asserts accepted <=> reference BEP-29 parser accepts (version 1, type <= 4, chain fits); on acceptance all fixed fields, header length (payload boundary), last SACK (8 zero-padded bytes + bit length) and 4-byte close reason agree; no panic / out-of-bounds
// @outside datagrams longer than 40 bytes (thorough: 64)
#[kani::proof]
#[kani::unwind(12)]
fn c11_1_differential_parse_40() {
    differential::<40>();
    kani::cover!(true, "end of harness reachable (assumptions satisfiable, no unconditional failure)");
}

// @verif id=C11.1t props=C11,C10 tier=thorough timeout=3400 mem=14
// @functions UtpHeader::deserialize, raw::Type::from_number, SelectiveAck::deserialize, LibTorrentCloseReason::parse
// @bounds EVERY byte string of length 0..=64 (up to 22 chained extensions)
// @asserts as C11.1
#[kani::proof]
#[kani::unwind(24)]
fn c11_1t_differential_parse_64() {
    differential::<64>();
    kani::cover!(true, "end of harness reachable (assumptions satisfiable, no unconditional failure)");
}

// @verif id=C11.2 props=C11,C10 tier=quick timeout=900
// @functions UtpMessage::deserialize, UtpHeader::deserialize
// @bounds every byte string of length 0..=32
// @asserts message accepted <=> header accepted and (type == ST_DATA <=> payload non-empty); header equals the header parse; data is exactly the bytes after the header (checked at an arbitrary index); no panic
#[kani::proof]
#[kani::unwind(9)]
fn c11_2_payload_rule_32() {
    const L: usize = 32;
    let buf: [u8; L] = kani::any();
    let len: usize = kani::any();
    kani::assume(len <= L);
    let b = &buf[..len];
    let reference = ref_parse(b);
    let msg = UtpMessage::deserialize(b);
    kani::cover!(msg.is_some() && reference.unwrap().typ == 0, "data packet accepted");
    kani::cover!(msg.is_none() && reference.is_some(), "well-formed header rejected by the payload rule");
    match (&msg, reference) {
        (None, None) => {}
        (Some(m), Some(r)) => {
            let plen = len - r.header_len;
            assert!((r.typ == 0) == (plen > 0), "C11: payload present exactly for data packets");
            assert!(agree(&m.header, r.header_len, &r), "C11: message header agrees with the reference parser");
            assert!(m.data.len() == plen, "C11: payload boundary not shifted by extensions");
            let i: usize = kani::any();
            if i < plen {
                assert!(m.data[i] == b[r.header_len + i], "C11: payload bytes are the datagram bytes after the header");
            }
        }
        (None, Some(r)) => {
            let plen = len - r.header_len;
            assert!((r.typ == 0) != (plen > 0), "C11: a well-formed packet obeying the payload rule is accepted");
        }
        (Some(_), None) => assert!(false, "C11: message accepted although the header is malformed"),
    }
    std::mem::forget(msg);
}

fn any_type() -> Type {
    let t: u8 = kani::any();
    kani::assume(t <= 4);
    match t {
        0 => Type::ST_DATA,
        1 => Type::ST_FIN,
        2 => Type::ST_STATE,
        3 => Type::ST_RESET,
        _ => Type::ST_SYN,
    }
}

/// Every header value the library can emit: all fixed fields arbitrary; SACK absent or a 64-bit
/// SACK with arbitrary bit content (the only shape the send path constructs); close reason absent
/// or any u16.
pub fn any_emittable_header() -> (UtpHeader, Option<[u8; 8]>) {
    let sack_bytes: [u8; 8] = kani::any();
    let has_sack: bool = kani::any();
    let has_cr: bool = kani::any();
    let h = UtpHeader {
        htype: any_type(),
        connection_id: SeqNr(kani::any()),
        timestamp_microseconds: kani::any(),
        timestamp_difference_microseconds: kani::any(),
        wnd_size: kani::any(),
        seq_nr: SeqNr(kani::any()),
        ack_nr: SeqNr(kani::any()),
        extensions: Extensions {
            selective_ack: if has_sack { Some(SelectiveAck::deserialize(&sack_bytes)) } else { None },
            close_reason: if has_cr { Some(LibTorrentCloseReason(kani::any())) } else { None },
        },
    };
    (h, if has_sack { Some(sack_bytes) } else { None })
}

fn same_header(a: &UtpHeader, b: &UtpHeader) -> bool {
    let mut ok = type_num(a.htype) == type_num(b.htype)
        && a.connection_id.0 == b.connection_id.0
        && a.timestamp_microseconds == b.timestamp_microseconds
        && a.timestamp_difference_microseconds == b.timestamp_difference_microseconds
        && a.wnd_size == b.wnd_size
        && a.seq_nr.0 == b.seq_nr.0
        && a.ack_nr.0 == b.ack_nr.0;
    match (a.extensions.selective_ack, b.extensions.selective_ack) {
        (None, None) => {}
        (Some(x), Some(y)) => {
            ok &= x.len() == y.len();
            let (xr, yr) = (x.as_bytes(), y.as_bytes());
            ok &= xr.len() == 8 && yr.len() == 8;
            let mut i = 0;
            while i < 8 {
                ok &= xr[i] == yr[i];
                i += 1;
            }
        }
        _ => ok = false,
    }
    match (a.extensions.close_reason, b.extensions.close_reason) {
        (None, None) => {}
        (Some(x), Some(y)) => ok &= x.0 == y.0,
        _ => ok = false,
    }
    ok
}

// @verif id=C11.3 props=C11 tier=quick timeout=900
// @functions UtpHeader::serialize, UtpHeader::deserialize, raw::Type::to_number, SelectiveAck::as_bytes, LibTorrentCloseReason::as_bytes
// @bounds EVERY emittable header value (5 types, all 2^176 fixed-field values, SACK absent/present with all 2^64 bit patterns, close reason absent/present with all u16) serialised into a 40-byte buffer
// @asserts serialise succeeds with length 20 + 10[SACK] + 6[close reason]; parsing the bytes back yields the same header and the same length; the reference parser accepts the bytes with version 1, the same type and connection id
// @outside SACK values whose bit length is not 64 (obtainable only by parsing a non-8-byte extension; the send path never constructs them) — see C11.3b
#[kani::proof]
#[kani::unwind(10)]
fn c11_3_roundtrip_emittable_headers() {
    let (h, _) = any_emittable_header();
    let mut buf = [0u8; 40];
    let n = match h.serialize(&mut buf) {
        Ok(n) => n,
        Err(e) => {
            std::mem::forget(e);
            assert!(false, "C11: serialising into a large enough buffer succeeds");
            return;
        }
    };
    let want = 20
        + if h.extensions.selective_ack.is_some() { 10 } else { 0 }
        + if h.extensions.close_reason.is_some() { 6 } else { 0 };
    kani::cover!(want == 36, "both extensions present");
    assert!(n == want, "C11: serialised length is 20 + extensions");
    let r = ref_parse(&buf[..n]);
    assert!(r.is_some(), "C11: emitted header is accepted by the reference BEP-29 parser");
    let r = r.unwrap();
    assert!(r.version == 1 && r.typ == type_num(h.htype) && r.connection_id == h.connection_id.0 && r.header_len == n,
        "C11: emitted header carries version 1, its type, its connection id, and the chain ends at the serialised length");
    match UtpHeader::deserialize(&buf[..n]) {
        Some((h2, n2)) => {
            assert!(n2 == n, "C11: round-trip yields the same length");
            assert!(same_header(&h, &h2), "C11: round-trip yields the same header");
        }
        None => assert!(false, "C11: serialised header parses back"),
    }
}

// @verif id=C11.3b props=C11 tier=quick timeout=900
// @functions UtpHeader::deserialize, UtpHeader::serialize
// @bounds every byte string of length 0..=36 that parses; re-serialised into a 64-byte buffer and parsed again
// @asserts parse(serialise(parse(b))) == parse(b) on all fixed fields, close reason and the 8 SACK bytes (idempotence of the normal form); the SACK bit length is deliberately not compared (a parsed SACK of other than 8 bytes is re-emitted as 8 zero-padded bytes; recorded as an observation, not a violation: no emitted packet depends on it)
#[kani::proof]
#[kani::unwind(10)]
fn c11_3b_parse_serialise_parse_idempotent() {
    const L: usize = 36;
    let buf: [u8; L] = kani::any();
    let len: usize = kani::any();
    kani::assume(len <= L);
    if let Some((h, _)) = UtpHeader::deserialize(&buf[..len]) {
        let mut out = [0u8; 64];
        let n = match h.serialize(&mut out) {
            Ok(n) => n,
            Err(e) => {
                std::mem::forget(e);
                assert!(false, "C11: re-serialising a parsed header succeeds");
                return;
            }
        };
        kani::cover!(h.extensions.selective_ack.is_some() && h.extensions.close_reason.is_some(), "both extensions parsed");
        match UtpHeader::deserialize(&out[..n]) {
            Some((mut h2, n2)) => {
                assert!(n2 == n, "C11: normal form parses to its own length");
                // neutralise the bit-length difference (see @asserts)
                let mut h1 = h;
                if let (Some(a), Some(b)) = (h1.extensions.selective_ack, h2.extensions.selective_ack) {
                    let mut ok = true;
                    let mut i = 0;
                    while i < 8 {
                        ok &= a.as_bytes()[i] == b.as_bytes()[i];
                        i += 1;
                    }
                    assert!(ok, "C11: SACK bytes survive re-serialisation");
                    h1.extensions.selective_ack = None;
                    h2.extensions.selective_ack = None;
                }
                assert!(same_header(&h1, &h2), "C11: re-serialised header parses to the same header");
            }
            None => assert!(false, "C11: re-serialised header parses"),
        }
    }
}

// @verif id=C11.4 props=C11,C10 tier=quick timeout=900
// @functions UtpHeader::serialize
// @bounds every emittable header value, every output buffer length 0..=40
// @asserts Err iff buffer < 20 bytes; never panics, never reports more bytes than the buffer holds; an extension that does not fit is omitted whole (SACK needs 10, close reason 6 bytes); whatever was written parses back (real and reference parser) to the header restricted to the extensions that fitted
#[kani::proof]
#[kani::unwind(10)]
fn c11_4_short_buffers() {
    let (h, _) = any_emittable_header();
    let mut buf = [0u8; 40];
    let blen: usize = kani::any();
    kani::assume(blen <= 40);
    let res = h.serialize(&mut buf[..blen]);
    match res {
        Err(e) => {
            std::mem::forget(e);
            assert!(blen < 20, "C11: serialise fails only when the fixed header does not fit");
        }
        Ok(n) => {
            assert!(blen >= 20, "C11: serialise succeeds only when the fixed header fits");
            assert!(n <= blen, "C11: reported length within the buffer");
            let mut want = h;
            let mut off = 20;
            if h.extensions.selective_ack.is_some() {
                if blen >= off + 10 { off += 10 } else { want.extensions.selective_ack = None }
            }
            if h.extensions.close_reason.is_some() {
                if blen >= off + 6 { off += 6 } else { want.extensions.close_reason = None }
            }
            kani::cover!(h.extensions.selective_ack.is_some() && want.extensions.selective_ack.is_none() && want.extensions.close_reason.is_some(),
                "SACK omitted but close reason fits");
            assert!(n == off, "C11: length counts exactly the extensions that fitted");
            assert!(ref_parse(&buf[..n]).is_some(), "C11: truncated-extension output is still well-formed for the reference parser");
            match UtpHeader::deserialize(&buf[..n]) {
                Some((h2, n2)) => {
                    assert!(n2 == n && same_header(&want, &h2), "C11: what was written parses back to the header minus omitted extensions");
                }
                None => assert!(false, "C11: output of serialise parses"),
            }
        }
    }
}

// @verif id=C10.1b props=C11,C04,C10 tier=quick
// @functions SelectiveAck::deserialize, SelectiveAck::as_bytes, SelectiveAck::len, SelectiveAck::iter
// @bounds every SACK extension payload of length 0..=24 bytes (any content)
// @asserts no panic for any length (incl. 0, 1, non-multiples of 4, > 8); keeps the first min(len, 8) bytes zero-padded; bit length = 8 * payload length; as_bytes is always 8 bytes
#[kani::proof]
#[kani::unwind(10)]
fn c10_1b_sack_deserialize_any_length() {
    let bytes: [u8; 24] = kani::any();
    let n: usize = kani::any();
    kani::assume(n <= 24);
    let s = SelectiveAck::deserialize(&bytes[..n]);
    kani::cover!(n == 1, "one-byte SACK (seen in the wild)");
    kani::cover!(n > 8, "over-long SACK");
    assert!(s.len() == n * 8, "C10: SACK bit length follows the extension length");
    let raw = s.as_bytes();
    assert!(raw.len() == 8, "C10: SACK storage is 8 bytes");
    let mut i = 0;
    while i < 8 {
        assert!(raw[i] == if i < n { bytes[i] } else { 0 }, "C10: SACK keeps the first 8 bytes, zero padded");
        i += 1;
    }
}
