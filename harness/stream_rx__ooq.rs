//! Receive-side reassembly queue (`OutOfOrderQueue`): one operation from a valid pre-state written
//! directly into the fields. Shape (K slots, occupancy pattern, addressed slot, payload lengths) is
//! concrete per harness instance; payload bytes, message type and out-of-range offsets are symbolic.
//! Serves C01.R1, C03.F2, C04.A1/A3, C10.3/C10.6 (DESIGN §3).
#![allow(unused_imports, dead_code)]
use super::*;
use crate::raw::UtpHeader;

/// Ghost slot: None = empty, Some((is_eof, len, bytes)).
#[derive(Clone, Copy)]
pub struct GSlot {
    pub occ: bool,
    pub eof: bool,
    pub len: usize,
    pub b: [u8; 2],
}

pub fn slot_msg(g: &GSlot) -> OoqMessage {
    if !g.occ {
        OoqMessage::Payload(Vec::new())
    } else if g.eof {
        OoqMessage::Eof
    } else if g.len == 1 {
        OoqMessage::Payload(vec![g.b[0]])
    } else {
        OoqMessage::Payload(vec![g.b[0], g.b[1]])
    }
}

/// Build a queue of K slots whose occupancy is given by the concrete bit pattern `pat`
/// (bit i = slot i occupied); occupied slot i holds a payload of (i % 2) + 1 symbolic bytes, or EOF if
/// `eof_slot == i`.
pub fn ooq_state<const K: usize>(pat: u32, eof_slot: usize) -> (OutOfOrderQueue, [GSlot; K]) {
    let mut g = [GSlot { occ: false, eof: false, len: 0, b: [0, 0] }; K];
    let mut v: Vec<OoqMessage> = Vec::with_capacity(K);
    let mut len = 0;
    let mut len_bytes = 0;
    let mut i = 0;
    while i < K {
        let occ = (pat >> i) & 1 == 1;
        let eof = occ && i == eof_slot;
        let l = if occ && !eof { (i % 2) + 1 } else { 0 };
        g[i] = GSlot { occ, eof, len: l, b: kani::any() };
        v.push(slot_msg(&g[i]));
        if occ {
            len += 1;
            len_bytes += l;
        }
        i += 1;
    }
    let mut ff = 0;
    while ff < K && g[ff].occ {
        ff += 1;
    }
    let q = OutOfOrderQueue { data: VecDeque::from(v), filled_front: ff, len, len_bytes, capacity: K };
    (q, g)
}

pub fn slot_matches(m: &OoqMessage, g: &GSlot) -> bool {
    match m {
        OoqMessage::Eof => g.occ && g.eof,
        OoqMessage::Payload(p) => {
            if !g.occ {
                p.is_empty()
            } else {
                !g.eof && p.len() == g.len && (g.len < 1 || p[0] == g.b[0]) && (g.len < 2 || p[1] == g.b[1])
            }
        }
    }
}

/// Representation invariant against the ghost.
pub fn inv<const K: usize>(q: &OutOfOrderQueue, g: &[GSlot; K]) -> bool {
    let mut ok = q.data.len() == K && q.capacity == K;
    let mut len = 0;
    let mut bytes = 0;
    let mut i = 0;
    while i < K {
        ok &= slot_matches(&q.data[i], &g[i]);
        if g[i].occ {
            len += 1;
            bytes += g[i].len;
        }
        i += 1;
    }
    let mut ff = 0;
    while ff < K && g[ff].occ {
        ff += 1;
    }
    ok && q.len == len && q.len_bytes == bytes && q.filled_front == ff
}

fn hdr(t: Type) -> UtpHeader {
    UtpHeader { htype: t, ..Default::default() }
}

/// add_remove of a DATA (2 symbolic bytes) or FIN message at concrete relative offset `off`.
fn add_step<const K: usize>(pat: u32, off: usize, fin: bool) -> u8 {
    let (mut q, mut g) = ooq_state::<K>(pat, usize::MAX);
    assert!(inv(&q, &g), "harness: constructed state satisfies the invariant");
    let ff = q.filled_front;
    let full = q.len == K;
    let nb: [u8; 2] = kani::any();
    let msg = if fin {
        UtpMessage { header: hdr(Type::ST_FIN), data: Vec::new() }
    } else {
        UtpMessage { header: hdr(Type::ST_DATA), data: vec![nb[0], nb[1]] }
    };
    let e = off + ff;
    let r = q.add_remove(msg, off);
    let code;
    match r {
        Ok(AssemblerAddRemoveResult::Unavailable(m)) => {
            code = 0;
            assert!(full || e >= K, "C01: a message is refused only when the queue is full or the slot is beyond its window");
            assert!(inv(&q, &g), "C01: a refused message changes nothing");
            assert!(m.data.len() == if fin { 0 } else { 2 }, "C01: a refused message is handed back intact");
            std::mem::forget(m);
        }
        Ok(AssemblerAddRemoveResult::AlreadyPresent) => {
            code = 1;
            assert!(!full && e < K && g[e].occ, "C01: AlreadyPresent only for an occupied slot");
            assert!(inv(&q, &g), "C01: a duplicate never overwrites what is stored");
        }
        Ok(AssemblerAddRemoveResult::Consumed { sequence_numbers, bytes }) => {
            code = 2;
            assert!(!full && e < K && !g[e].occ, "C01: a message is stored only into an empty slot inside the window");
            g[e] = GSlot { occ: true, eof: fin, len: if fin { 0 } else { 2 }, b: nb };
            // run of occupied slots starting at the old filled_front
            let mut n = 0;
            let mut by = 0;
            let mut i = ff;
            while i < K && g[i].occ {
                n += 1;
                by += g[i].len;
                i += 1;
            }
            assert!(sequence_numbers == n, "C04: consumed sequence numbers == length of the newly contiguous run");
            assert!(bytes == by, "C04: consumed bytes == bytes of the newly contiguous run");
            assert!(inv(&q, &g), "C01: only the addressed slot changes; counters and filled_front follow");
        }
        Err(e) => {
            std::mem::forget(e);
            code = 3;
            assert!(false, "C10: DATA with payload / FIN never produce an internal error");
        }
    }
    std::mem::forget(q);
    code
}

macro_rules! ooq_add_instance {
    ($name:ident, $k:expr, $pat:expr, $off:expr, $fin:expr, $expect:expr) => {
        #[kani::proof]
        #[kani::unwind(7)]
        fn $name() {
            let c = add_step::<$k>($pat, $off, $fin);
            kani::cover!(c == $expect, "expected outcome reachable");
            assert!(c == $expect, "C01: outcome class for this shape");
        }
    };
}

// @verif id=OOQ.add.a props=C01,C04 tier=quick
// @functions OutOfOrderQueue::add_remove, stream_rx::ooq_slot_is_default, OoqMessage::len_bytes
// @bounds K = 3 slots, empty queue, in-order DATA (2 symbolic bytes) at offset 0
// @asserts stored into slot 0 only; Consumed{1, 2}; filled_front = 1; counters follow; invariant
// @unwind 7
ooq_add_instance!(ooq_add_k3_empty_inorder, 3, 0b000, 0, false, 2);

// @verif id=OOQ.add.b props=C01,C04 tier=quick
// @functions OutOfOrderQueue::add_remove
// @bounds K = 3, empty queue, out-of-order DATA at offset 1
// @asserts stored into slot 1 only; Consumed{0, 0}; filled_front stays 0
// @unwind 7
ooq_add_instance!(ooq_add_k3_empty_ooo, 3, 0b000, 1, false, 2);

// @verif id=OOQ.add.c props=C01,C04 tier=quick
// @functions OutOfOrderQueue::add_remove
// @bounds K = 3, slots 1 and 2 held out of order, DATA at offset 0 fills the gap
// @asserts Consumed{3, total bytes}; filled_front = 3; stored payloads untouched
// @unwind 7
ooq_add_instance!(ooq_add_k3_gapfill_all, 3, 0b110, 0, false, 2);

// @verif id=OOQ.add.d props=C01,C04 tier=quick
// @functions OutOfOrderQueue::add_remove
// @bounds K = 3, slot 1 held, duplicate DATA for slot 1 (offset 1)
// @asserts AlreadyPresent; nothing overwritten (stored bytes compared with the ghost)
// @unwind 7
ooq_add_instance!(ooq_add_k3_duplicate, 3, 0b010, 1, false, 1);

// @verif id=OOQ.add.e props=C01,C04 tier=quick
// @functions OutOfOrderQueue::add_remove
// @bounds K = 3, slot 0 consumed-but-unflushed (filled_front = 1) and slot 2 held; DATA at offset 0 lands in slot 1 and completes the queue
// @asserts Consumed{2, bytes of slots 1..=2}; filled_front = 3
// @unwind 7
ooq_add_instance!(ooq_add_k3_ff1_completes, 3, 0b101, 0, false, 2);

// @verif id=OOQ.add.f props=C01,C10 tier=quick
// @functions OutOfOrderQueue::add_remove
// @bounds K = 3, all slots occupied (reader stalled), DATA at offset 0
// @asserts Unavailable, message handed back, nothing changes (storage bounded by K slots)
// @unwind 7
ooq_add_instance!(ooq_add_k3_full, 3, 0b111, 0, false, 0);

// @verif id=OOQ.add.g props=C01,C03,C04 tier=quick
// @functions OutOfOrderQueue::add_remove
// @bounds K = 3, slot 0 filled (filled_front = 1), FIN at offset 1 (out of order: one data packet still missing before it)
// @asserts EOF stored in its own sequence slot (slot 2), Consumed{0,0}: end-of-stream is not released before the missing data
// @unwind 7
ooq_add_instance!(ooq_add_k3_fin_out_of_order, 3, 0b001, 1, true, 2);

// @verif id=OOQ.add.h props=C01,C03,C04 tier=quick
// @functions OutOfOrderQueue::add_remove
// @bounds K = 3, empty, FIN in order at offset 0
// @asserts EOF stored in slot 0, Consumed{1, 0}
// @unwind 7
ooq_add_instance!(ooq_add_k3_fin_in_order, 3, 0b000, 0, true, 2);

// @verif id=OOQ.add.i props=C01,C04 tier=thorough
// @functions OutOfOrderQueue::add_remove
// @bounds K = 4, slots 1 and 3 held, DATA at offset 0
// @asserts Consumed{2, ..}; filled_front = 2; slot 3 stays out of order
// @unwind 7
ooq_add_instance!(ooq_add_k4_partial_run, 4, 0b1010, 0, false, 2);

// @verif id=OOQ.add.j props=C01,C04 tier=thorough
// @functions OutOfOrderQueue::add_remove
// @bounds K = 4, filled_front = 2 (slots 0,1), DATA at offset 1 -> slot 3
// @asserts Consumed{0,0}
// @unwind 7
ooq_add_instance!(ooq_add_k4_ff2_ooo, 4, 0b0011, 1, false, 2);

// ---- thorough tier: complete enumeration of K = 3 (all 8 occupancy patterns x 3 offsets x DATA/FIN) ----
macro_rules! ooq_add_enum_instance {
    ($name:ident, $pat:expr) => {
        #[kani::proof]
        #[kani::unwind(7)]
        fn $name() {
            let off: u8 = kani::any();
            kani::assume(off < 3);
            let fin: bool = kani::any();
            // offsets are dispatched concretely (shape rule): the solver sees three concrete-shape runs
            let _c = match off {
                0 => add_step::<3>($pat, 0, fin),
                1 => add_step::<3>($pat, 1, fin),
                _ => add_step::<3>($pat, 2, fin),
            };
            kani::cover!(true, "end of harness reachable (assumptions satisfiable, no unconditional failure)");
        }
    };
}

// @verif id=OOQ.enum.000 props=C01,C04,C03 tier=thorough timeout=1200
// @functions OutOfOrderQueue::add_remove
// @bounds K = 3, occupancy pattern 0b000; every relative offset 0..=2; DATA (2 symbolic bytes) or FIN
// @asserts the full add_remove contract of OOQ.add.* (refusal / duplicate / store + consumed run) against the ghost, for this pattern
// @unwind 7
ooq_add_enum_instance!(ooq_add_enum_000, 0b000);

// @verif id=OOQ.enum.001 props=C01,C04,C03 tier=thorough timeout=1200
// @functions OutOfOrderQueue::add_remove
// @bounds K = 3, occupancy pattern 0b001; every relative offset 0..=2; DATA (2 symbolic bytes) or FIN
// @asserts the full add_remove contract of OOQ.add.* (refusal / duplicate / store + consumed run) against the ghost, for this pattern
// @unwind 7
ooq_add_enum_instance!(ooq_add_enum_001, 0b001);

// @verif id=OOQ.enum.010 props=C01,C04,C03 tier=thorough timeout=1200
// @functions OutOfOrderQueue::add_remove
// @bounds K = 3, occupancy pattern 0b010; every relative offset 0..=2; DATA (2 symbolic bytes) or FIN
// @asserts the full add_remove contract of OOQ.add.* (refusal / duplicate / store + consumed run) against the ghost, for this pattern
// @unwind 7
ooq_add_enum_instance!(ooq_add_enum_010, 0b010);

// @verif id=OOQ.enum.011 props=C01,C04,C03 tier=thorough timeout=1200
// @functions OutOfOrderQueue::add_remove
// @bounds K = 3, occupancy pattern 0b011; every relative offset 0..=2; DATA (2 symbolic bytes) or FIN
// @asserts the full add_remove contract of OOQ.add.* (refusal / duplicate / store + consumed run) against the ghost, for this pattern
// @unwind 7
ooq_add_enum_instance!(ooq_add_enum_011, 0b011);

// @verif id=OOQ.enum.100 props=C01,C04,C03 tier=thorough timeout=1200
// @functions OutOfOrderQueue::add_remove
// @bounds K = 3, occupancy pattern 0b100; every relative offset 0..=2; DATA (2 symbolic bytes) or FIN
// @asserts the full add_remove contract of OOQ.add.* (refusal / duplicate / store + consumed run) against the ghost, for this pattern
// @unwind 7
ooq_add_enum_instance!(ooq_add_enum_100, 0b100);

// @verif id=OOQ.enum.101 props=C01,C04,C03 tier=thorough timeout=1200
// @functions OutOfOrderQueue::add_remove
// @bounds K = 3, occupancy pattern 0b101; every relative offset 0..=2; DATA (2 symbolic bytes) or FIN
// @asserts the full add_remove contract of OOQ.add.* (refusal / duplicate / store + consumed run) against the ghost, for this pattern
// @unwind 7
ooq_add_enum_instance!(ooq_add_enum_101, 0b101);

// @verif id=OOQ.enum.110 props=C01,C04,C03 tier=thorough timeout=1200
// @functions OutOfOrderQueue::add_remove
// @bounds K = 3, occupancy pattern 0b110; every relative offset 0..=2; DATA (2 symbolic bytes) or FIN
// @asserts the full add_remove contract of OOQ.add.* (refusal / duplicate / store + consumed run) against the ghost, for this pattern
// @unwind 7
ooq_add_enum_instance!(ooq_add_enum_110, 0b110);

// @verif id=OOQ.enum.111 props=C01,C04,C03 tier=thorough timeout=1200
// @functions OutOfOrderQueue::add_remove
// @bounds K = 3, occupancy pattern 0b111; every relative offset 0..=2; DATA (2 symbolic bytes) or FIN
// @asserts the full add_remove contract of OOQ.add.* (refusal / duplicate / store + consumed run) against the ghost, for this pattern
// @unwind 7
ooq_add_enum_instance!(ooq_add_enum_111, 0b111);

// @verif id=OOQ.add.range props=C01,C10 tier=quick
// @functions OutOfOrderQueue::add_remove
// @bounds K = 3, slot 0 filled (filled_front = 1); EVERY offset: usize with offset + filled_front >= K (bounded below usize::MAX - 3 so the sum cannot overflow; the dispatcher passes at most 65535), DATA or FIN
// @asserts Unavailable; nothing changes; no panic
// @assumes offset <= usize::MAX - 3 (dispatcher-side bound: offsets come from 16-bit sequence distances)
#[kani::proof]
#[kani::unwind(7)]
fn ooq_add_k3_out_of_window_any_offset() {
    let (mut q, g) = ooq_state::<3>(0b001, usize::MAX);
    let off: usize = kani::any();
    kani::assume(off >= 2 && off <= usize::MAX - 3);
    let fin: bool = kani::any();
    let msg = if fin {
        UtpMessage { header: hdr(Type::ST_FIN), data: Vec::new() }
    } else {
        UtpMessage { header: hdr(Type::ST_DATA), data: vec![kani::any()] }
    };
    let r = q.add_remove(msg, off);
    let unavailable = matches!(r, Ok(AssemblerAddRemoveResult::Unavailable(_)));
    std::mem::forget(r);
    kani::cover!(off > 70000, "huge offset reachable");
    assert!(unavailable, "C10: a message beyond the reassembly window is refused, not stored");
    assert!(inv(&q, &g), "C10: a refused message changes nothing");
    std::mem::forget(q);
}

// @verif id=OOQ.add.bad props=C10 tier=quick
// @functions OutOfOrderQueue::add_remove
// @bounds K = 3 empty queue; zero-length ST_DATA, and the three message types the dispatcher never forwards (ST_STATE, ST_RESET, ST_SYN), offset 0
// @asserts never a panic; zero-length data is rejected with ZeroPayloadStData, other types with the internal-bug error (the dispatcher's filter in C10.5 keeps both unreachable from the wire); nothing stored
#[kani::proof]
#[kani::unwind(7)]
fn ooq_add_k3_invalid_messages() {
    let (mut q, g) = ooq_state::<3>(0b000, usize::MAX);
    let which: u8 = kani::any();
    kani::assume(which < 4);
    let t = match which {
        0 => Type::ST_DATA,
        1 => Type::ST_STATE,
        2 => Type::ST_RESET,
        _ => Type::ST_SYN,
    };
    let r = q.add_remove(UtpMessage { header: hdr(t), data: Vec::new() }, 0);
    let is_err = r.is_err();
    std::mem::forget(r);
    assert!(is_err, "C10: malformed assembler input is rejected");
    assert!(inv(&q, &g), "C10: rejected input changes nothing");
    std::mem::forget(q);
    kani::cover!(true, "end of harness reachable (assumptions satisfiable, no unconditional failure)");
}

// ---- flush primitive --------------------------------------------------------------------------

fn send_front_step<const K: usize>(pat: u32, eof_slot: usize) {
    let (mut q, g) = ooq_state::<K>(pat, eof_slot);
    let ff = q.filled_front;
    let window: usize = kani::any();
    let accept: bool = kani::any();
    let mut got: Option<OoqMessage> = None;
    let r = q.send_front_if_fits(window, |m| {
        if accept {
            got = Some(m);
            Ok(())
        } else {
            Err(m)
        }
    });
    kani::cover!(r.is_some(), "a message was released");
    kani::cover!(r.is_none() && ff > 0 && g[0].len <= window, "receiver refused (reader gone)");
    match r {
        Some(len) => {
            assert!(ff > 0 && accept && g[0].len <= window, "C01: only an in-order message that fits the window is released");
            assert!(len == g[0].len, "C04: released length is the stored payload's");
            let m = got.take().unwrap();
            assert!(slot_matches(&m, &g[0]), "C01: the released message is exactly what slot 0 stored (bytes / EOF)");
            std::mem::forget(m);
            // everything shifts left by one, a fresh empty slot appears at the back
            let mut g2 = [GSlot { occ: false, eof: false, len: 0, b: [0, 0] }; K];
            let mut i = 0;
            while i + 1 < K {
                g2[i] = g[i + 1];
                i += 1;
            }
            assert!(inv(&q, &g2), "C01: release pops slot 0 only; order of the rest preserved");
        }
        None => {
            assert!(ff == 0 || !accept || g[0].len > window, "C01: release refused only without in-order data, without room, or without a reader");
            assert!(inv(&q, &g), "C01: a refused release changes nothing (message put back in front)");
        }
    }
    std::mem::forget(q);
}

// @verif id=OOQ.send.a props=C01,C03,C04 tier=quick
// @functions OutOfOrderQueue::send_front_if_fits, OutOfOrderQueue::filled_front_bytes
// @bounds K = 3, slots 0,1 in order and slot... pattern 0b011 (filled_front = 2); any window: usize; receiver accepts or refuses
// @asserts releases slot 0 exactly (bytes identical), only if it fits and the receiver accepts; everything else shifts by one in order; refused release changes nothing
// @unwind 7
#[kani::proof]
#[kani::unwind(7)]
fn ooq_send_front_k3_two_in_order() {
    send_front_step::<3>(0b011, usize::MAX);
    kani::cover!(true, "end of harness reachable (assumptions satisfiable, no unconditional failure)");
}

// @verif id=OOQ.send.b props=C01,C03,C04 tier=quick
// @functions OutOfOrderQueue::send_front_if_fits
// @bounds K = 3, pattern 0b101 (one in-order message, one held out of order behind a gap)
// @asserts as OOQ.send.a; the out-of-order message is NOT released
#[kani::proof]
#[kani::unwind(7)]
fn ooq_send_front_k3_gap() {
    send_front_step::<3>(0b101, usize::MAX);
    kani::cover!(true, "end of harness reachable (assumptions satisfiable, no unconditional failure)");
}

// @verif id=OOQ.send.c props=C01,C03 tier=quick
// @functions OutOfOrderQueue::send_front_if_fits
// @bounds K = 3, pattern 0b110: nothing in order (slot 0 missing)
// @asserts nothing released whatever the window
#[kani::proof]
#[kani::unwind(7)]
fn ooq_send_front_k3_nothing_in_order() {
    let (mut q, g) = ooq_state::<3>(0b110, usize::MAX);
    let window: usize = kani::any();
    let r = q.send_front_if_fits(window, |m| {
        std::mem::forget(m);
        Ok(())
    });
    assert!(r.is_none(), "C01: data held out of order is never released to the reader");
    assert!(inv(&q, &g), "C01: nothing changes");
    std::mem::forget(q);
    kani::cover!(true, "end of harness reachable (assumptions satisfiable, no unconditional failure)");
}

// @verif id=OOQ.send.d props=C03,C01 tier=quick
// @functions OutOfOrderQueue::send_front_if_fits
// @bounds K = 3, pattern 0b011 with EOF in slot 1 (data then end-of-stream, both in order)
// @asserts the data message in slot 0 is released first; EOF moves to slot 0 (released only afterwards)
#[kani::proof]
#[kani::unwind(7)]
fn ooq_send_front_k3_data_before_eof() {
    send_front_step::<3>(0b011, 1);
    kani::cover!(true, "end of harness reachable (assumptions satisfiable, no unconditional failure)");
}

// ---- selective ACK ----------------------------------------------------------------------------

fn sack_step<const K: usize>(pat: u32) {
    let (q, g) = ooq_state::<K>(pat, usize::MAX);
    let ff = q.filled_front;
    let s = q.selective_ack();
    let mut any_beyond = false;
    let mut i = ff;
    while i < K {
        any_beyond |= g[i].occ;
        i += 1;
    }
    match s {
        None => assert!(!any_beyond, "C04: a SACK is emitted whenever something is held out of order"),
        Some(s) => {
            assert!(any_beyond, "C04: no SACK without out-of-order data");
            assert!(s.len() == 64, "C04: emitted SACK is 64 bits");
            let raw = s.as_bytes();
            assert!(raw.len() == 8, "C04: emitted SACK serialises to 8 bytes");
            let mut bit = 0;
            while bit < 8 {
                let slot = ff + 1 + bit;
                let held = slot < K && g[slot].occ;
                let set = (raw[0] >> bit) & 1 == 1;
                assert!(set == held, "C04: SACK bit i is set exactly when ack_nr+2+i is held out of order");
                bit += 1;
            }
            assert!(raw[1] == 0 && raw[2] == 0 && raw[3] == 0 && raw[4] == 0 && raw[5] == 0 && raw[6] == 0 && raw[7] == 0,
                "C04: no SACK bit set beyond the queue");
        }
    }
    std::mem::forget(q);
}

macro_rules! ooq_sack_instance {
    ($name:ident, $k:expr, $pat:expr) => {
        #[kani::proof]
        #[kani::unwind(10)]
        fn $name() {
            sack_step::<$k>($pat);
            kani::cover!(true, "end of harness reachable (assumptions satisfiable, no unconditional failure)");
        }
    };
}

// @verif id=OOQ.sack.a props=C04 tier=quick
// @functions OutOfOrderQueue::selective_ack, SelectiveAck::new, OutOfOrderQueue::is_empty
// @bounds K = 5 slots, pattern 0b10100 (two packets held behind gaps)
// @asserts Some; bit i <=> slot filled_front+1+i occupied (first 8 bits checked individually, the other 56 must be 0), 64 bits, 8 bytes
// @unwind 10
ooq_sack_instance!(ooq_sack_k5_two_held, 5, 0b10100);

// @verif id=OOQ.sack.b props=C04 tier=quick
// @functions OutOfOrderQueue::selective_ack
// @bounds K = 5, patterns 0b00000 (empty) and 0b00011 (only in-order data awaiting flush)
// @asserts None: nothing is held out of order
// @unwind 10
#[kani::proof]
#[kani::unwind(10)]
fn ooq_sack_k5_nothing_out_of_order() {
    if kani::any() {
        sack_step::<5>(0b00000);
    } else {
        sack_step::<5>(0b00011);
    }
    kani::cover!(true, "end of harness reachable (assumptions satisfiable, no unconditional failure)");
}

// @verif id=OOQ.sack.c props=C04,C09 tier=quick
// @functions OutOfOrderQueue::selective_ack, SelectiveAck::new
// @bounds K = 5, pattern 0b11101 (filled_front = 1, hole at slot 1, three held)
// @asserts bits 0..=2 set, nothing else
// @unwind 10
ooq_sack_instance!(ooq_sack_k5_ff1_three_held, 5, 0b11101);

// @verif id=OOQ.sack.d props=C04 tier=thorough
// @functions OutOfOrderQueue::selective_ack, SelectiveAck::new
// @bounds K = 8, pattern 0b10110100
// @asserts as OOQ.sack.a
// @unwind 10
ooq_sack_instance!(ooq_sack_k8_mixed, 8, 0b10110100);
