//! Small tier-A pieces of stream_dispatch.rs: `Timer` laws (C02.T, C07.0), the connection-state
//! helper table (C17.1), `StreamArgs` wiring (C13.3, C17.1) and the protocol constants the
//! properties fix (C07).
#![allow(unused_imports, dead_code)]
use super::*;
use crate::verif_lib__support::{at_ms, at_us};

fn any_timer<const N: u8>() -> Timer<N> {
    if kani::any() {
        Timer::Idle
    } else {
        Timer::Armed { expires_at: at_us(kani::any::<u32>() as u64) }
    }
}

// @verif id=DSP.timer props=C02,C07,C06 tier=quick
// @functions Timer::arm, Timer::expired, Timer::poll_at, Timer::take, Timer::set, Timer::turn_off
// @bounds every timer state (idle, or armed at any microsecond instant < 2^32 us); any now < 2^32 us; any delay < 2^32 us; restart true/false
// @asserts arm on idle or with restart: expires exactly at now+delay; arm without restart never POSTPONES an armed timer (expires' == min(old, now+delay)) - the delayed-ACK bound; expired <=> armed and expires_at <= now; poll_at is the expiry; take disarms and returns the old value; set/turn_off do what they say
#[kani::proof]
#[kani::unwind(3)]
fn dsp_timer_laws() {
    let mut t: Timer<TIMER_ACK_DELAY> = any_timer();
    let pre = t;
    let now = at_us(kani::any::<u32>() as u64);
    let delay = Duration::from_micros(kani::any::<u32>() as u64);
    let restart: bool = kani::any();
    // observers
    match pre {
        Timer::Idle => assert!(!pre.expired(now) && pre.poll_at().is_none(), "C02: an idle timer neither expires nor schedules a poll"),
        Timer::Armed { expires_at } => {
            assert!(pre.expired(now) == (expires_at <= now), "C02: a timer is expired exactly from its expiry instant on");
            assert!(pre.poll_at() == Some(expires_at), "C02: the next poll is scheduled at the expiry instant");
        }
    }
    t.arm(now, delay, restart, "verif");
    kani::cover!(matches!(pre, Timer::Armed { .. }) && !restart, "re-arm without restart");
    match (pre, t) {
        (Timer::Idle, Timer::Armed { expires_at }) => assert!(expires_at == now + delay, "C07: arming an idle timer sets now + delay"),
        (Timer::Armed { .. }, Timer::Armed { expires_at }) if restart => assert!(expires_at == now + delay, "C06: restarting re-arms at now + delay"),
        (Timer::Armed { expires_at: old }, Timer::Armed { expires_at }) => {
            assert!(expires_at == core::cmp::min(old, now + delay), "C07: re-arming without restart never postpones the deadline");
            assert!(expires_at <= old, "C07: an armed delayed-ACK deadline is not pushed back by later packets");
        }
        _ => assert!(false, "C02: arm always leaves the timer armed"),
    }
    let mut t2 = t;
    let taken = t2.take();
    assert!(taken == t && t2 == Timer::Idle, "C02: take returns the timer and disarms it");
    let at = at_us(kani::any::<u32>() as u64);
    t2.set(at);
    assert!(t2 == Timer::Armed { expires_at: at }, "C02: set arms at the given instant");
    t2.turn_off("verif");
    assert!(t2 == Timer::Idle, "C02: turn_off disarms");
}

// @verif id=DSP.const props=C07,C17 tier=quick
// @functions constants::ACK_DELAY, constants::IMMEDIATE_ACK_EVERY_RMSS, constants::SYNACK_RESEND_INTERNAL, constants::SACK_DUP_THRESH
// @bounds the compiled constants
// @asserts delayed-ACK interval 40 ms; immediate ACK every 2 full segments; SYN-ACK resend every 200 ms; three duplicate ACKs trigger fast retransmit
#[kani::proof]
fn dsp_protocol_constants() {
    assert!(ACK_DELAY == Duration::from_millis(40), "C07: delayed-ACK interval is 40 ms");
    assert!(IMMEDIATE_ACK_EVERY_RMSS == 2, "C07: immediate ACK once unacknowledged bytes reach twice the segment size");
    assert!(SYNACK_RESEND_INTERNAL == Duration::from_millis(200), "C17: SYN-ACK repeated on a 200 ms timer");
    assert!(crate::constants::SACK_DUP_THRESH == 3, "C06: three duplicate acknowledgements trigger fast retransmit");
    kani::cover!(true, "end of harness reachable (assumptions satisfiable, no unconditional failure)");
}

fn any_state() -> VirtualSocketState {
    let k: u8 = kani::any();
    kani::assume(k < 7);
    match k {
        0 => VirtualSocketState::SynReceived,
        1 => VirtualSocketState::SynAckSent { count: kani::any() },
        2 => VirtualSocketState::Established,
        3 => VirtualSocketState::FinWait1 { our_fin: SeqNr(kani::any()) },
        4 => VirtualSocketState::FinWait2,
        5 => VirtualSocketState::LastAck { our_fin: SeqNr(kani::any()), remote_fin: SeqNr(kani::any()) },
        _ => VirtualSocketState::Closed,
    }
}

// @verif id=DSP.state props=C17,C08 tier=quick
// @functions VirtualSocketState::transition_to_fin_wait_1, VirtualSocketState::is_closed, VirtualSocketState::is_local_fin_or_later, VirtualSocketState::our_fin_if_unacked, VirtualSocketState::is_remote_fin_or_later
// @bounds all 7 states with arbitrary payloads (counts, FIN numbers); wait_for_last_ack true/false; any our_fin
// @asserts table transcribed from docs/states.dot: only SynReceived/SynAckSent/Established move to FinWait1 (carrying exactly the given FIN number), every other state is left alone; closed <=> Closed, or LastAck when not waiting for the last ACK; "local FIN or later" <=> FinWait1/FinWait2/LastAck/Closed; unacked own FIN exactly in FinWait1/LastAck; "remote FIN or later" <=> LastAck/Closed
#[kani::proof]
fn dsp_state_helper_table() {
    let s = any_state();
    let fin = SeqNr(kani::any());
    let mut t = s;
    let moved = t.transition_to_fin_wait_1(fin);
    let can = matches!(s, VirtualSocketState::SynReceived | VirtualSocketState::SynAckSent { .. } | VirtualSocketState::Established);
    assert!(moved == can, "C17: own FIN is initiated only before any FIN was sent");
    if can {
        assert!(t == VirtualSocketState::FinWait1 { our_fin: fin }, "C17: closing on own initiative enters FIN-WAIT-1 with the given FIN number");
    } else {
        assert!(t == s, "C17: a refused transition leaves the state alone");
    }
    let w: bool = kani::any();
    let closed = matches!(s, VirtualSocketState::Closed) || (matches!(s, VirtualSocketState::LastAck { .. }) && !w);
    assert!(s.is_closed(w) == closed, "C08: closed exactly in Closed, or LastAck when the final ACK is not awaited");
    let local_fin = matches!(s, VirtualSocketState::FinWait1 { .. } | VirtualSocketState::FinWait2 | VirtualSocketState::LastAck { .. } | VirtualSocketState::Closed);
    assert!(s.is_local_fin_or_later() == local_fin, "C17: no new payload after the own FIN");
    match s {
        VirtualSocketState::FinWait1 { our_fin } | VirtualSocketState::LastAck { our_fin, .. } => {
            assert!(s.our_fin_if_unacked() == Some(our_fin), "C17: unacknowledged own FIN is remembered for retransmission")
        }
        _ => assert!(s.our_fin_if_unacked().is_none(), "C17: no FIN to retransmit in other states"),
    }
    assert!(s.is_remote_fin_or_later() == matches!(s, VirtualSocketState::LastAck { .. } | VirtualSocketState::Closed), "C17: remote FIN seen exactly in LastAck/Closed");
    kani::cover!(true, "end of harness reachable (assumptions satisfiable, no unconditional failure)");
}

fn any_header(t: Type) -> UtpHeader {
    UtpHeader {
        htype: t,
        connection_id: SeqNr(kani::any()),
        timestamp_microseconds: kani::any(),
        timestamp_difference_microseconds: kani::any(),
        wnd_size: kani::any(),
        seq_nr: SeqNr(kani::any()),
        ack_nr: SeqNr(kani::any()),
        extensions: Default::default(),
    }
}

// @verif id=DSP.args props=C13,C17,C09 tier=quick
// @functions StreamArgs::new_incoming, StreamArgs::new_outgoing
// @bounds every SYN header / every SYN-ACK header (all field values, incl. ids and sequence numbers at the 16-bit wrap); any initial sequence number; any timestamps
// @asserts accepted side: receives on syn.id+1, sends on syn.id, first ACK acknowledges exactly the SYN's sequence number, own numbering starts at the chosen ISN, state SynReceived; initiating side: receives on the id the peer echoed, sends on id+1, next data is ack_nr+1, peer's numbering continues at seq_nr, state Established; all arithmetic wraps mod 2^16
#[kani::proof]
#[kani::unwind(3)]
fn dsp_stream_args_wiring() {
    let syn = any_header(Type::ST_SYN);
    let isn = SeqNr(kani::any());
    let a = StreamArgs::new_incoming(isn, &syn);
    assert!(a.conn_id_recv.0 == syn.connection_id.0.wrapping_add(1) && a.conn_id_send.0 == syn.connection_id.0, "C13: accepted side is wired to the initiator's ids (recv = id+1, send = id)");
    assert!(a.last_consumed_remote_seq_nr.0 == syn.seq_nr.0 && a.last_sent_ack_nr.0 == syn.seq_nr.0, "C17: the SYN-ACK acknowledges the SYN's sequence number");
    assert!(a.seq_nr.0 == isn.0 && a.last_sent_seq_nr.0 == isn.0.wrapping_sub(1), "C17: own numbering starts at the chosen initial sequence number");
    assert!(a.state == VirtualSocketState::SynReceived && a.remote_window == 0 && a.rtt.is_none(), "C17: accepted connection starts in SYN-RECEIVED and may not send before the handshake completes");

    let ack = any_header(Type::ST_STATE);
    let t0 = at_ms(kani::any::<u16>() as u64);
    let t1 = t0 + Duration::from_millis(kani::any::<u16>() as u64);
    let b = StreamArgs::new_outgoing(&ack, t0, t1);
    assert!(b.conn_id_recv.0 == ack.connection_id.0 && b.conn_id_send.0 == ack.connection_id.0.wrapping_add(1), "C13: initiating side is wired recv = id, send = id+1");
    assert!(b.seq_nr.0 == ack.ack_nr.0.wrapping_add(1) && b.last_sent_seq_nr.0 == ack.ack_nr.0, "C17: first data packet follows the acknowledged SYN");
    assert!(b.last_consumed_remote_seq_nr.0 == ack.seq_nr.0.wrapping_sub(1) && b.last_sent_ack_nr.0 == ack.seq_nr.0.wrapping_sub(1), "C17: the peer's first data packet will carry the sequence number of its SYN-ACK");
    assert!(b.state == VirtualSocketState::Established && b.remote_window == ack.wnd_size && b.rtt == Some(t1 - t0), "C17: initiator is established by the SYN-ACK; RTT seeded by the handshake");
    kani::cover!(true, "end of harness reachable (assumptions satisfiable, no unconditional failure)");
}
