//! C18 / C14.6 / C02.D — segmentation of buffered bytes (`split_tx_queue_into_segments`): tier C.
// @requires stream_dispatch__vs.rs
// @requires stream_tx_segments__seg.rs
// @requires mtu__c14.rs
#![allow(unused_imports, dead_code, static_mut_refs)]
use super::verif_stream_dispatch__vs::*;
use super::*;
use crate::stream_tx_segments::verif_stream_tx_segments__seg::{segments_with, verif_probe_flags, verif_sizes};
use crate::verif_lib__support::slot_is;
use std::task::Context;

// All harnesses here stub `Heap::new` (allocation-size concretisation, see TX.grow.*): the buffer growth
// step inside `split_tx_queue_into_segments` would otherwise allocate a symbolic-size ring. With
// tx_max == capacity no growth is requested (EXPECT_NEW_CAP stays 0 and the stub asserts it is not asked).
// `Segments::pop_expired_mtu_probe` is replaced by its contract stub (outcome Empty: no probe outstanding);
// the pop_back/push_back pair of the real function chained with `enqueue` exhausts memory (> 28 GB). The
// real function is decided by SEG.popx / SEG.popx01.

/// link MTU 52 => 4-byte segments, no probing range
fn cfg4(fill: usize, nagle: bool) -> VsConfig {
    VsConfig { link_mtu: 52, rx_buf: 12, nagle, ring: (8, 3, fill), tx_max: 8 }
}

/// One segmentation step. FILL bytes buffered (concrete), E pre-existing segments of `esizes` bytes
/// (transmitted, unacknowledged: "earlier data still unacknowledged"); remote window and Nagle symbolic.
fn split_step<const E: usize>(fill: usize, esizes: [usize; E]) {
    let nagle: bool = kani::any();
    let mut t = make_vsock(VirtualSocketState::Established, cfg4(fill, nagle));
    let mut seg_bytes = 0;
    let mut i = 0;
    while i < E {
        seg_bytes += esizes[i];
        i += 1;
    }
    {
        // pre-allocated queue (capacity E+4): enqueue never reallocates (DESIGN C01.R2)
        let old = std::mem::replace(&mut t.vsock.user_tx_segments, segments_with::<E>(OUR_SEQ, esizes, 0xff, 9_000, false));
        std::mem::forget(old);
    }
    if E > 0 {
        t.vsock.last_sent_seq_nr = SeqNr(OUR_SEQ.wrapping_add(E as u16).wrapping_sub(1));
        t.vsock.seq_nr = SeqNr(OUR_SEQ.wrapping_add(E as u16));
    }
    let wnd: u32 = kani::any();
    t.vsock.last_remote_window = wnd;
    let w = cx_waker();
    let mut cx = Context::from_waker(&w);
    let r = t.vsock.split_tx_queue_into_segments(&mut cx);
    let ok = r.is_ok();
    std::mem::forget(r);
    assert!(ok, "C10: segmentation does not fail on consistent buffers");
    let sizes = verif_sizes(&t.vsock.user_tx_segments);
    let n_after = t.vsock.user_tx_segments.total_len_packets();
    assert!(n_after >= E && n_after <= 4, "harness: at most 4 segments observed");
    // walk the newly created segments with the oracle
    let mut remaining = fill - seg_bytes;
    let mut rw = wnd as usize;
    let mut idx = E;
    let mut in_flight = E > 0;
    let mut done = false;
    let mut steps = 0;
    while steps < 3 {
        if !done && remaining > 0 && rw > 0 {
            let full = core::cmp::min(4, rw);
            let size = core::cmp::min(full, remaining);
            if nagle && size != full && in_flight {
                done = true; // Nagle holds the partial segment back
            } else {
                assert!(idx < n_after && sizes[idx] == size, "C18: buffered bytes are segmented into the largest segments window and MSS allow");
                if nagle && in_flight {
                    assert!(sizes[idx] == full, "C18: with Nagle no partial segment is created while earlier data is unacknowledged (unless the peer window limits it)");
                }
                remaining -= size;
                rw -= size;
                idx += 1;
                in_flight = true;
            }
        }
        steps += 1;
    }
    assert!(idx == n_after, "C18: nothing else is segmented");
    if !nagle {
        assert!(remaining == 0 || rw == 0, "C18: with Nagle disabled everything buffered is segmented, limited only by the peer window");
    }
    assert!(t.vsock.user_tx_segments.total_len_bytes() <= fill, "C19: never more bytes segmented than buffered");
    assert!(t.vsock.this_poll.unsegmented_data == remaining, "C17: unsegmented remainder is remembered (FIN waits for it)");
    let pf = verif_probe_flags(&t.vsock.user_tx_segments);
    assert!(!pf[0] && !pf[1] && !pf[2] && !pf[3], "C14: no oversized probe when the proven size equals the link ceiling");
    if fill == 0 {
        assert!(slot_is(&t.vsock.user_tx.locked.read().dispatcher_waker, W_DISP), "C02: with nothing buffered the dispatcher registers to be woken by the next write");
    }
    finish(t);
}

macro_rules! split_instance {
    ($name:ident, $fill:expr, $e:expr, $sizes:expr) => {
        crate::verif_tier_c! {
        #[kani::stub(ringbuf::storage::Heap::new, crate::stream_tx::verif_stream_tx__tx::stub_heap_new)]
        #[kani::stub(crate::stream_tx_segments::Segments::pop_expired_mtu_probe, crate::stream_tx_segments::Segments::stub_pop_expired_mtu_probe)]
        #[kani::unwind(6)]
        fn $name() {
            split_step::<$e>($fill, $sizes);
            kani::cover!(true, "end of harness reachable (assumptions satisfiable, no unconditional failure)");
        }
        }
    };
}

// @verif id=VS.split.a props=C18,C02,C19,C17 tier=quick timeout=900
// @functions VirtualSocket::split_tx_queue_into_segments, Segments::enqueue, Segments::pop_expired_mtu_probe, SegmentSizes::next_segment_size
// @bounds MSS 4 (no probing range); 6 bytes buffered (wrapped in the ring), nothing in flight; ANY peer window (u32); Nagle on/off symbolic
// @asserts segments are min(MSS, window left, bytes left) each, in order; Nagle never holds data when nothing is in flight for the FIRST segment, but holds the trailing partial one (earlier data unacknowledged); Nagle off: everything up to the window; unsegmented remainder recorded
// @unwindset make_tx_at=9,__vs::record=37
// @tier C
split_instance!(vs_split_fill6_idle, 6, 0, []);

// @verif id=VS.split.b props=C18,C19 tier=quick timeout=900 
// @functions VirtualSocket::split_tx_queue_into_segments
// @bounds MSS 4; 7 bytes buffered of which 4 already segmented, sent and unacknowledged (one full segment in flight); ANY peer window; Nagle symbolic
// @asserts with Nagle the trailing 3-byte partial segment is NOT created (unless the window is what limits a segment); without Nagle it is
// @unwindset make_tx_at=9,__vs::record=37
// @tier C
split_instance!(vs_split_fill7_one_in_flight, 7, 1, [4]);

// @verif id=VS.split.c props=C18,C02 tier=quick timeout=900
// @functions VirtualSocket::split_tx_queue_into_segments
// @bounds nothing buffered
// @asserts nothing segmented; the dispatcher's waker is registered with the write half
// @unwindset make_tx_at=9,__vs::record=37
// @tier C
split_instance!(vs_split_empty, 0, 0, []);

// @verif id=VS.split.e props=C18 tier=quick timeout=900
// @functions VirtualSocket::split_tx_queue_into_segments
// @bounds MSS 4; 6 bytes buffered of which 4 are in flight (2-byte tail); ANY peer window (incl. windows smaller than, or not a multiple of, the segment size); Nagle symbolic
// @asserts with Nagle the 2-byte tail is held back whenever it is smaller than what the window would allow (e.g. window 3), and is sent only if the window itself limits it to exactly that size; without Nagle it is segmented
// @unwindset make_tx_at=9,__vs::record=37
// @tier C
split_instance!(vs_split_fill6_tail2_one_in_flight, 6, 1, [4]);

// @verif id=VS.split.d props=C18,C19 tier=thorough timeout=900
// @functions VirtualSocket::split_tx_queue_into_segments
// @bounds MSS 4; 8 bytes buffered, a 2-byte partial segment in flight
// @asserts as VS.split.b
// @unwindset make_tx_at=9,__vs::record=37
// @tier C
split_instance!(vs_split_fill8_partial_in_flight, 8, 1, [2]);

// ---- MTU probe rule (C14.6) ---------------------------------------------------------------------

fn probe_step(outstanding: bool) {
    probe_step_fill(outstanding, 8)
}

/// `fill` buffered bytes: 8 = the full 5-byte probe fits; 4 = the segment is cut short by the end of the data
/// but still exceeds the proven size 2, so it is still an (undersized) probe.
fn probe_step_fill(outstanding: bool, fill: usize) {
    // search interval [2, 6], cool-down expired: the next size is the probe 5
    let mut t = make_vsock(VirtualSocketState::Established, VsConfig { link_mtu: 54, rx_buf: 12, nagle: false, ring: (8, 3, fill), tx_max: 8 });
    t.vsock.segment_sizes = crate::mtu::verif_mtu__c14::verif_segment_sizes(2, 6, 0, 3);
    {
        let old = std::mem::replace(&mut t.vsock.user_tx_segments, segments_with::<0>(OUR_SEQ, [], 0, 0, false));
        std::mem::forget(old);
    }
    unsafe { crate::stream_tx_segments::verif_stream_tx_segments__seg::POPX_RESULT = if outstanding { 1 } else { 0 } };
    let wnd: u32 = kani::any();
    kani::assume(wnd >= 8);
    t.vsock.last_remote_window = wnd;
    let w = cx_waker();
    let mut cx = Context::from_waker(&w);
    let r = t.vsock.split_tx_queue_into_segments(&mut cx);
    let ok = r.is_ok();
    std::mem::forget(r);
    assert!(ok, "C10: segmentation does not fail");
    let sizes = verif_sizes(&t.vsock.user_tx_segments);
    let pf = verif_probe_flags(&t.vsock.user_tx_segments);
    let n = t.vsock.user_tx_segments.total_len_packets();
    if outstanding {
        assert!(n == 0, "C14: nothing is segmented behind an outstanding probe (at most one probe, and it is the newest segment)");
    } else {
        let want = core::cmp::min(5, fill);
        assert!(n == 1 && sizes[0] == want, "C14: with the cool-down over the next segment is the mid-point probe (or what is left of the data)");
        assert!(pf[0], "C14: every segment larger than the proven size is flagged as a probe (so it can be popped and re-split if it does not get through)");
        assert!(sizes[0] as u16 <= t.vsock.segment_sizes.max_ss(), "C14: a probe never exceeds the ceiling");
        assert!(t.vsock.this_poll.unsegmented_data == fill - want, "C14: segmentation stops right after the probe: the probe is the newest segment");
    }
    finish(t);
}

// @verif id=VS.split.probe props=C14 tier=quick timeout=900
// @functions VirtualSocket::split_tx_queue_into_segments, SegmentSizes::next_segment_size
// @bounds search interval [2, 6] with the cool-down expired; 8 bytes buffered; peer window ANY >= 8; Nagle off; (a) no probe outstanding, (b) an unexpired probe outstanding (contract stub outcome NotExpired)
// @asserts (a) exactly one segment is created: the 5-byte probe, flagged, and segmentation stops behind it; (b) nothing at all is segmented behind an outstanding probe
// @stubs Segments::pop_expired_mtu_probe -> contract stub (Empty / NotExpired)
// @unwindset make_tx_at=9,__vs::record=37
crate::verif_tier_c! {
#[kani::stub(ringbuf::storage::Heap::new, crate::stream_tx::verif_stream_tx__tx::stub_heap_new)]
#[kani::stub(crate::stream_tx_segments::Segments::pop_expired_mtu_probe, crate::stream_tx_segments::Segments::stub_pop_expired_mtu_probe)]
#[kani::unwind(6)]
fn vs_split_mtu_probe_rule() {
    probe_step(kani::any());
    kani::cover!(true, "end of harness reachable (assumptions satisfiable, no unconditional failure)");
}
}

// @verif id=VS.split.probe2 props=C14 tier=quick timeout=900
// @functions VirtualSocket::split_tx_queue_into_segments
// @bounds as VS.split.probe(a) but only 4 bytes are buffered: the probing slot yields a 4-byte segment, larger than the proven size 2 and smaller than the probe size 5
// @asserts the segment is still flagged as a probe (ordinary segments never exceed the largest size proven deliverable)
// @stubs Segments::pop_expired_mtu_probe -> contract stub (Empty)
// @unwindset make_tx_at=9,__vs::record=37
crate::verif_tier_c! {
#[kani::stub(ringbuf::storage::Heap::new, crate::stream_tx::verif_stream_tx__tx::stub_heap_new)]
#[kani::stub(crate::stream_tx_segments::Segments::pop_expired_mtu_probe, crate::stream_tx_segments::Segments::stub_pop_expired_mtu_probe)]
#[kani::unwind(6)]
fn vs_split_undersized_probe_is_flagged() {
    probe_step_fill(false, 4);
    kani::cover!(true, "end of harness reachable (assumptions satisfiable, no unconditional failure)");
}
}

// ---- buffer growth inside the segmentation step (C19.3) ---------------------------------------------

// @verif id=VS.split.grow props=C19,C02 tier=quick timeout=900
// @functions VirtualSocket::split_tx_queue_into_segments (growth decision), UserTx::grow
// @bounds send buffer of 8 bytes completely full, configured maximum 16, windows 1024 (so the buffer is the bottleneck); a blocked writer registered; an unexpired MTU probe outstanding or not (contract stub outcome)
// @asserts the buffer grows to exactly min(2*8, 16) = 16 bytes and the blocked writer is woken in the same call, whether or not segmentation then stops early behind an outstanding probe
// @stubs Heap::new -> allocation-size concretisation (asserts the requested capacity == 16); Segments::pop_expired_mtu_probe -> contract stub
// @unwindset make_tx_at=9,__vs::record=37
crate::verif_tier_c! {
#[kani::stub(ringbuf::storage::Heap::new, crate::stream_tx::verif_stream_tx__tx::stub_heap_new)]
#[kani::stub(crate::stream_tx_segments::Segments::pop_expired_mtu_probe, crate::stream_tx_segments::Segments::stub_pop_expired_mtu_probe)]
#[kani::unwind(10)]
fn vs_split_growth_wakes_blocked_writer() {
    let mut t = make_vsock(VirtualSocketState::Established, VsConfig { link_mtu: 52, rx_buf: 12, nagle: true, ring: (8, 3, 8), tx_max: 16 });
    {
        let old = std::mem::replace(&mut t.vsock.user_tx_segments, segments_with::<2>(OUR_SEQ, [4, 4], 0b11, 9_900, false));
        std::mem::forget(old);
    }
    t.vsock.last_sent_seq_nr = SeqNr(OUR_SEQ.wrapping_add(1));
    t.vsock.seq_nr = SeqNr(OUR_SEQ.wrapping_add(2));
    t.vsock.user_tx.locked.write().writer_waker = Some(crate::verif_lib__support::waker(W_WRITER));
    let outstanding: bool = kani::any();
    unsafe {
        crate::stream_tx::verif_stream_tx__tx::EXPECT_NEW_CAP = 16;
        crate::stream_tx_segments::verif_stream_tx_segments__seg::POPX_RESULT = if outstanding { 1 } else { 0 };
    }
    let w = cx_waker();
    let mut cx = Context::from_waker(&w);
    let r = t.vsock.split_tx_queue_into_segments(&mut cx);
    let ok = r.is_ok();
    std::mem::forget(r);
    assert!(ok, "C10: segmentation does not fail");
    let cap = {
        use ringbuf::traits::Observer;
        t.vsock.user_tx.consumer.lock().capacity().get()
    };
    assert!(cap == 16, "C19: a full send buffer below its configured maximum grows to min(2 * capacity, maximum)");
    assert!(crate::verif_lib__support::wakes(W_WRITER) == 1, "C19: the blocked writer is woken as soon as the growth step frees space");
    kani::cover!(outstanding, "growth while a probe is outstanding");
    finish(t);
}
}
