//! C13 (narrow claim): the per-address connecting table and the SYN backlog bound (DESIGN §3 C13).
#![allow(unused_imports, dead_code)]
use super::*;
use std::panic as stdpanic;

/// The requester (a oneshot sender + span) plays no role in the table logic; an all-zero value is a
/// valid `RequestWithSpan` (sender without channel, empty span) and is never dropped (forgotten).
fn conn(seq: u16, token: u64) -> Connecting {
    Connecting { token, start: crate::verif_lib__support::at_ms(1), seq_nr: SeqNr(seq), requester: unsafe { std::mem::zeroed() } }
}

/// Table with concrete occupancy pattern `pat` (bit i = slot i in use); sequence numbers and tokens symbolic,
/// pairwise distinct (tokens come from a global counter; sequence numbers are random per connect).
fn table(pat: u8) -> (ConnectingPerAddr, [u16; 4], [u64; 4]) {
    let seqs: [u16; 4] = kani::any();
    let toks: [u64; 4] = kani::any();
    let mut t = ConnectingPerAddr::default();
    let mut i = 0;
    while i < 4 {
        let mut j = 0;
        while j < i {
            kani::assume(seqs[i] != seqs[j] && toks[i] != toks[j]);
            j += 1;
        }
        if (pat >> i) & 1 == 1 {
            t.slots[i] = Some(conn(seqs[i], toks[i]));
            t.len += 1;
        }
        i += 1;
    }
    (t, seqs, toks)
}

fn occupied(t: &ConnectingPerAddr) -> usize {
    let mut n = 0;
    let mut i = 0;
    while i < 4 {
        if t.slots[i].is_some() {
            n += 1;
        }
        i += 1;
    }
    n
}

fn step(pat: u8) {
    let (mut t, seqs, toks) = table(pat);
    let n0 = occupied(&t);
    assert!(t.len == n0 && t.is_empty() == (n0 == 0), "C13: len counts the pending connects");
    let op: u8 = kani::any();
    kani::assume(op < 3);
    if op == 0 {
        let s: u16 = kani::any();
        let tk: u64 = kani::any();
        let ok = t.insert(conn(s, tk));
        assert!(ok == (n0 < 4), "C13: a connect is refused only when all 4 slots for the address are pending");
        assert!(t.len == occupied(&t) && t.len == n0 + if ok { 1 } else { 0 } && t.len <= 4, "C13: at most 4 pending connects per address");
    } else if op == 1 {
        let s: u16 = kani::any();
        let r = t.pop(SeqNr(s));
        let mut present = false;
        let mut i = 0;
        while i < 4 {
            present |= (pat >> i) & 1 == 1 && seqs[i] == s;
            i += 1;
        }
        assert!(r.is_some() == present, "C13: a SYN-ACK is matched exactly to the pending connect with that sequence number");
        if let Some(c) = &r {
            assert!(c.seq_nr.0 == s, "C13: matched entry is the right one");
        }
        assert!(t.len == occupied(&t) && t.len == n0 - if present { 1 } else { 0 }, "C13: a matched connect releases its slot, a miss changes nothing");
        std::mem::forget(r);
    } else {
        let tk: u64 = kani::any();
        let r = t.pop_by_token(tk);
        let mut present = false;
        let mut i = 0;
        while i < 4 {
            present |= (pat >> i) & 1 == 1 && toks[i] == tk;
            i += 1;
        }
        assert!(r.is_some() == present, "C13: an abandoned connect is found by its token");
        if let Some(c) = &r {
            assert!(c.token == tk, "C13: released entry is the abandoned one");
        }
        assert!(t.len == occupied(&t) && t.len == n0 - if present { 1 } else { 0 }, "C13: an abandoned connect releases what it reserved");
        std::mem::forget(r);
    }
    std::mem::forget(t);
}

macro_rules! c13_instance {
    ($name:ident, $pat:expr) => {
        #[kani::proof]
        #[kani::unwind(6)]
        #[kani::stub(stdpanic::catch_unwind, crate::verif_lib__support::stub_catch_unwind)]
        #[kani::stub(std::task::Waker::wake, crate::verif_lib__support::stub_waker_wake)]
        #[kani::stub(std::task::Waker::wake_by_ref, crate::verif_lib__support::stub_waker_wake_by_ref)]
        #[kani::stub(<std::task::Waker as std::ops::Drop>::drop, crate::verif_lib__support::stub_waker_drop)]
        fn $name() {
            step($pat);
            kani::cover!(true, "end of harness reachable (assumptions satisfiable, no unconditional failure)");
        }
    };
}

// @verif id=C13.1a props=C13 tier=quick
// @functions ConnectingPerAddr::insert, ConnectingPerAddr::pop, ConnectingPerAddr::pop_by_token, ConnectingPerAddr::is_empty
// @bounds occupancy pattern 0b0000 (empty table); one operation of {insert, pop(any seq), pop_by_token(any token)}; all sequence numbers/tokens symbolic and pairwise distinct
// @asserts len == number of occupied slots <= 4; insert fails iff full; pop/pop_by_token return exactly the matching entry and free its slot; a miss changes nothing
// @assumes pending connects to one address have distinct tokens (global counter) and distinct sequence numbers
// @unwind 6
c13_instance!(c13_1_table_empty, 0b0000);

// @verif id=C13.1b props=C13 tier=quick
// @functions ConnectingPerAddr::insert, ConnectingPerAddr::pop, ConnectingPerAddr::pop_by_token
// @bounds occupancy pattern 0b0101 (slots 0 and 2 pending)
// @asserts as C13.1a
// @assumes as C13.1a
// @unwind 6
c13_instance!(c13_1_table_0101, 0b0101);

// @verif id=C13.1c props=C13,C10 tier=quick
// @functions ConnectingPerAddr::insert, ConnectingPerAddr::pop, ConnectingPerAddr::pop_by_token
// @bounds occupancy pattern 0b1111 (table full)
// @asserts as C13.1a (insert refused; a pop frees a slot)
// @assumes as C13.1a
// @unwind 6
c13_instance!(c13_1_table_full, 0b1111);

// @verif id=C13.1d props=C13 tier=thorough
// @functions ConnectingPerAddr::insert, ConnectingPerAddr::pop, ConnectingPerAddr::pop_by_token
// @bounds occupancy pattern 0b1110
// @asserts as C13.1a
// @assumes as C13.1a
// @unwind 6
c13_instance!(c13_1_table_1110, 0b1110);

// @verif id=C13.2 props=C13 tier=quick
// @functions constants ACCEPT_QUEUE_MAX_SYNS, MAX_CONNECTING_PER_ADDR
// @bounds the compiled constants
// @asserts the SYN backlog and the per-address connecting table are bounded by fixed constants (32 and 4)
#[kani::proof]
fn c13_2_backlog_constants() {
    assert!(ACCEPT_QUEUE_MAX_SYNS == 32 && MAX_CONNECTING_PER_ADDR == 4, "C13: fixed backlog bounds");
    kani::cover!(true, "end of harness reachable (assumptions satisfiable, no unconditional failure)");
}
