//! Tier-C support: a `UtpSocket` built by struct literal (no dispatcher task, no spawn) — DESIGN §2.2.
#![allow(dead_code)]
use super::*;

pub(crate) fn verif_opts(link_mtu: u16, rx: usize, tx_initial: usize, tx_max: usize, nagle: bool) -> ValidatedSocketOpts {
    ValidatedSocketOpts {
        link_mtu,
        vsock_rx_bufsize: NonZeroUsize::new(rx).unwrap(),
        vsock_tx_bufsize_bytes_initial: NonZeroUsize::new(tx_initial).unwrap(),
        vsock_tx_bufsize_bytes_max: NonZeroUsize::new(tx_max).unwrap(),
        nagle,
        congestion: Default::default(),
        max_segment_retransmissions: NonZeroUsize::new(5).unwrap(),
        remote_inactivity_timeout: Duration::from_secs(10),
        max_active_streams: NonZeroUsize::new(128).unwrap(),
        wait_for_last_ack: true,
        mtu_probe_max_retransmissions: 1,
    }
}

pub(crate) struct VerifSocketParts<T, E> {
    pub socket: Arc<UtpSocket<T, E>>,
    pub control_rx: UnboundedReceiver<ControlRequest>,
    pub accept_rx: mpsc::Receiver<Acceptor<T, E>>,
}

pub(crate) fn verif_make_socket<T: Transport, E: UtpEnvironment>(transport: T, env: E, opts: ValidatedSocketOpts) -> VerifSocketParts<T, E> {
    let (accept_tx, accept_rx) = mpsc::channel(1);
    let (control_tx, control_rx) = unbounded_channel();
    let local_addr = transport.bind_addr();
    let socket = Arc::new(UtpSocket {
        transport,
        created: env.now(),
        control_requests: control_tx,
        local_addr,
        opts,
        env: env.copy(),
        accept_requests: accept_tx,
        cancellation_token: CancellationToken::new(),
    });
    VerifSocketParts { socket, control_rx, accept_rx }
}
