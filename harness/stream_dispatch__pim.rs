//! C17.2 / C03.F3 / C04.A3 / C10.5 — one incoming packet through `process_incoming_message`
//! (tier C). The packet's header fields are symbolic; the socket is an established-looking socket
//! whose state is overwritten per harness.
// @requires stream_dispatch__vs.rs
// @requires stream_tx_segments__seg.rs
#![allow(unused_imports, dead_code, static_mut_refs)]
use super::verif_stream_dispatch__vs::*;
use super::*;
use std::task::Context;

pub fn any_state_with(our_fin: u16, remote_fin: u16) -> VirtualSocketState {
    let k: u8 = kani::any();
    kani::assume(k < 7);
    match k {
        0 => VirtualSocketState::SynReceived,
        1 => VirtualSocketState::SynAckSent { count: 1 },
        2 => VirtualSocketState::Established,
        3 => VirtualSocketState::FinWait1 { our_fin: SeqNr(our_fin) },
        4 => VirtualSocketState::FinWait2,
        5 => VirtualSocketState::LastAck { our_fin: SeqNr(our_fin), remote_fin: SeqNr(remote_fin) },
        _ => VirtualSocketState::Closed,
    }
}

pub fn hdr(t: Type, seq: u16, ack: u16) -> UtpHeader {
    UtpHeader {
        htype: t,
        connection_id: SeqNr(CONN_ID_SEND + 1),
        timestamp_microseconds: kani::any(),
        timestamp_difference_microseconds: kani::any(),
        wnd_size: kani::any(),
        seq_nr: SeqNr(seq),
        ack_nr: SeqNr(ack),
        extensions: Default::default(),
    }
}

fn is_bug(e: &Error) -> bool {
    !matches!(e, Error::StResetReceived)
}

fn reset_syn_step(st: VirtualSocketState, is_reset: bool) {
    let our_fin = OUR_SEQ.wrapping_sub(1);
    let mut t = make_vsock(st, VsConfig::default());
    let ack: u16 = kani::any();
    let h = hdr(if is_reset { Type::ST_RESET } else { Type::ST_SYN }, kani::any(), ack);
    let w = cx_waker();
    let mut cx = Context::from_waker(&w);
    let r = t.vsock.process_incoming_message(&mut cx, UtpMessage { header: h, data: Vec::new() });
    let ok = r.is_ok();
    let reset_err = matches!(&r, Err(Error::StResetReceived));
    std::mem::forget(r);
    assert!(sent_n() == 0, "C17: neither a RESET nor a stray SYN is answered");
    if is_reset {
        assert!(t.vsock.state == VirtualSocketState::Closed, "C17: a RESET aborts the connection at once");
        let answered = matches!(st, VirtualSocketState::LastAck { .. }) && ack == our_fin;
        if ok {
            assert!(answered, "C17: a RESET is an error unless the close handshake was already answered");
        } else {
            assert!(!answered && reset_err, "C03: a reset surfaces as a reset error");
        }
    } else {
        assert!(ok && t.vsock.state == st, "C10: a stray SYN on a live connection is ignored");
        assert!(t.vsock.last_consumed_remote_seq_nr == SeqNr(PEER_LAST) && t.vsock.seq_nr == SeqNr(OUR_SEQ), "C10: a stray SYN changes no numbering");
    }
    finish(t);
}

macro_rules! reset_instance {
    ($name:ident, $st:expr, $reset:expr) => {
        crate::verif_tier_c! {
        #[kani::unwind(5)]
        fn $name() {
            reset_syn_step($st, $reset);
            kani::cover!(true, "end of harness reachable (assumptions satisfiable, no unconditional failure)");
        }
        }
    };
}

// @verif id=VS.pim.reset.est props=C17,C03,C10 tier=quick timeout=900
// @functions VirtualSocket::process_incoming_message (ST_RESET arm)
// @bounds state Established; RESET with ANY seq_nr, ack_nr, window, timestamps
// @asserts the connection is Closed at once, the call returns the reset error, NO datagram is emitted in reply
// @unwindset make_tx_at=9,__vs::record=37
// @tier C
reset_instance!(vs_pim_reset_established, VirtualSocketState::Established, true);

// @verif id=VS.pim.reset.la props=C17,C03,C10 tier=quick timeout=900
// @functions VirtualSocket::process_incoming_message (ST_RESET arms)
// @bounds state LastAck (own FIN = OUR_SEQ-1 unacknowledged); RESET with ANY ack_nr
// @asserts Closed at once; no error exactly when the RESET acknowledges our FIN (close handshake already answered), otherwise the reset error; no reply
// @unwindset make_tx_at=9,__vs::record=37
// @tier C
reset_instance!(vs_pim_reset_lastack, VirtualSocketState::LastAck { our_fin: SeqNr(OUR_SEQ.wrapping_sub(1)), remote_fin: SeqNr(PEER_LAST) }, true);

// @verif id=VS.pim.reset.fw1 props=C17,C03 tier=quick timeout=900
// @functions VirtualSocket::process_incoming_message (ST_RESET arm)
// @bounds state FinWait1; RESET with ANY fields
// @asserts Closed, reset error, no reply
// @unwindset make_tx_at=9,__vs::record=37
// @tier C
reset_instance!(vs_pim_reset_finwait1, VirtualSocketState::FinWait1 { our_fin: SeqNr(OUR_SEQ.wrapping_sub(1)) }, true);

// @verif id=VS.pim.reset.sas props=C17,C03 tier=thorough timeout=900
// @functions VirtualSocket::process_incoming_message (ST_RESET arm)
// @bounds state SynAckSent; RESET with ANY fields
// @asserts Closed, reset error, no reply
// @unwindset make_tx_at=9,__vs::record=37
// @tier C
reset_instance!(vs_pim_reset_synacksent, VirtualSocketState::SynAckSent { count: 1 }, true);

// @verif id=VS.pim.reset.fw2 props=C17,C03 tier=thorough timeout=900
// @functions VirtualSocket::process_incoming_message (ST_RESET arm)
// @bounds state FinWait2; RESET with ANY fields
// @asserts Closed, reset error, no reply
// @unwindset make_tx_at=9,__vs::record=37
// @tier C
reset_instance!(vs_pim_reset_finwait2, VirtualSocketState::FinWait2, true);

// @verif id=VS.pim.syn props=C17,C10 tier=quick timeout=900
// @functions VirtualSocket::process_incoming_message (ST_SYN arm)
// @bounds state Established; stray SYN with ANY fields
// @asserts ignored: no error, nothing changes, nothing emitted
// @unwindset make_tx_at=9,__vs::record=37
// @tier C
reset_instance!(vs_pim_stray_syn_established, VirtualSocketState::Established, false);

// @verif id=VS.pim.state props=C17,C04,C05,C10,C09 tier=quick timeout=900
// @functions VirtualSocket::process_incoming_message (ST_STATE), Segments::remove_up_to_ack (empty queue), SegmentSizes::on_payload_delivered, Recovery::on_ack, MockCc
// @bounds states Established, FinWait2, SynAckSent (own initial sequence number ANY u16), FinWait1, LastAck (own FIN = OUR_SEQ-1 = 65533); ST_STATE with ANY seq_nr, ack_nr, window, timestamp; nothing in flight
// @asserts never an error, never a datagram; peer window and timestamp recorded verbatim and handed to the controller; receive-side position untouched (a state packet consumes nothing); transitions: SynAckSent -> Established iff it acknowledges our SYN-ACK number; FinWait1 -> FinWait2 (or Closed for the STATE-as-FIN quirk) iff it acknowledges our FIN; LastAck -> Closed iff it acknowledges our FIN; all other cases keep the state
// @unwindset make_tx_at=9,__vs::record=37
crate::verif_tier_c! {
#[kani::unwind(5)]
fn vs_pim_state_packet() {
    let our_fin = OUR_SEQ.wrapping_sub(1);
    let st = any_state_with(our_fin, PEER_LAST);
    kani::assume(!matches!(st, VirtualSocketState::SynReceived | VirtualSocketState::Closed));
    let mut t = make_vsock(st, VsConfig::default());
    // handshake: our own initial sequence number is ANY u16 (nothing is in flight yet)
    let my_isn: u16 = if matches!(st, VirtualSocketState::SynAckSent { .. }) { kani::any() } else { OUR_SEQ };
    t.vsock.seq_nr = SeqNr(my_isn);
    t.vsock.last_sent_seq_nr = SeqNr(my_isn.wrapping_sub(1));
    let (seq, ack): (u16, u16) = (kani::any(), kani::any());
    let h = hdr(Type::ST_STATE, seq, ack);
    let w = cx_waker();
    let mut cx = Context::from_waker(&w);
    let r = t.vsock.process_incoming_message(&mut cx, UtpMessage { header: h, data: Vec::new() });
    let ok = r.is_ok();
    std::mem::forget(r);
    assert!(ok, "C10: a state packet never produces an error");
    assert!(sent_n() == 0, "C07: a bare state packet is not answered");
    assert!(t.vsock.last_consumed_remote_seq_nr == SeqNr(PEER_LAST), "C04: a state packet consumes no sequence number");
    let acks_synack = ack == my_isn.wrapping_sub(1);
    kani::cover!(matches!(st, VirtualSocketState::SynAckSent { .. }) && my_isn == 0 && acks_synack, "handshake completes with initial sequence number 0");
    let acks_fin = ack == our_fin;
    let dropped = matches!(st, VirtualSocketState::SynAckSent { .. }) && !acks_synack;
    if !dropped {
        assert!(t.vsock.last_remote_window == h.wnd_size && t.vsock.last_remote_timestamp == h.timestamp_microseconds, "C05: the most recent advertised window is recorded");
        assert!(unsafe { CC_RWND } == h.wnd_size as usize, "C05: the controller learns the peer window");
    }
    let want = match st {
        VirtualSocketState::SynAckSent { .. } => if acks_synack { VirtualSocketState::Established } else { st },
        VirtualSocketState::FinWait1 { .. } => {
            if acks_fin {
                if seq.wrapping_sub(PEER_LAST) == 1 { VirtualSocketState::Closed } else { VirtualSocketState::FinWait2 }
            } else { st }
        }
        VirtualSocketState::LastAck { .. } => if acks_fin { VirtualSocketState::Closed } else { st },
        s => s,
    };
    kani::cover!(matches!(st, VirtualSocketState::FinWait1 { .. }) && t.vsock.state == VirtualSocketState::FinWait2, "our FIN acknowledged");
    assert!(t.vsock.state == want, "C17: state packets move the connection only along the uTP state diagram");
    finish(t);
}
}

/// `rel`: concrete position of the FIN relative to the next expected sequence number (0 = in sequence).
/// Concrete because it becomes the reassembly-queue slot index (DESIGN §2.2 shape rule).
fn fin_step(st: VirtualSocketState, rel: i16) {
    let our_fin = OUR_SEQ.wrapping_sub(1);
    let mut t = make_vsock(st, VsConfig::default());
    // add_remove contract stub: any of the three results (the dispatcher ignores it for a FIN)
    let arr: u8 = kani::any();
    kani::assume(arr < 3);
    unsafe {
        AR_RESULT = arr;
        AR_SEQ = if arr == 0 { 1 } else { 0 };
    }
    let seq = PEER_LAST.wrapping_add(1).wrapping_add(rel as u16);
    let ack: u16 = kani::any();
    let h = hdr(Type::ST_FIN, seq, ack);
    let in_seq = seq == PEER_LAST.wrapping_add(1);
    let w = cx_waker();
    let mut cx = Context::from_waker(&w);
    let r = t.vsock.process_incoming_message(&mut cx, UtpMessage { header: h, data: Vec::new() });
    let ok = r.is_ok();
    std::mem::forget(r);
    assert!(ok, "C10: a FIN never produces an error");
    assert!(sent_n() == 0, "C17: the FIN is acknowledged by the ACK path of the same poll, not inside packet processing");
    let acks_fin = ack == our_fin;
    let closed_for_writer = crate::stream_tx::verif_stream_tx__tx::verif_vsock_closed(&t.vsock.user_tx);
    let wait_states = matches!(st, VirtualSocketState::Established | VirtualSocketState::FinWait1 { .. } | VirtualSocketState::FinWait2);
    if wait_states && !in_seq {
        assert!(t.vsock.state == st && t.vsock.last_consumed_remote_seq_nr == SeqNr(PEER_LAST) && t.vsock.consumed_but_unacked_bytes == 0
            && t.vsock.seq_nr == SeqNr(OUR_SEQ) && unsafe { AR_CALLS } == 0 && !closed_for_writer,
            "C17: a FIN out of sequence is not honoured: nothing changes");
    }
    if wait_states && in_seq {
        assert!(t.vsock.last_consumed_remote_seq_nr == SeqNr(seq), "C17: an in-sequence FIN is consumed (and therefore acknowledged)");
        assert!(t.vsock.consumed_but_unacked_bytes >= 2 * 65535, "C07: a FIN forces an immediate ACK that no later change of the segment size can cancel");
        assert!(closed_for_writer, "C03: the writer learns that the peer closed");
        assert!(unsafe { AR_CALLS == 1 && AR_IS_FIN && AR_OFFSET == 0 }, "C03: the end-of-stream marker is queued at the FIN's own position (offset 0 = next in order), exactly once");
        let want = match st {
            VirtualSocketState::Established => VirtualSocketState::LastAck { our_fin: SeqNr(OUR_SEQ), remote_fin: SeqNr(seq) },
            VirtualSocketState::FinWait1 { .. } => if acks_fin { VirtualSocketState::Closed } else { VirtualSocketState::LastAck { our_fin: SeqNr(our_fin), remote_fin: SeqNr(seq) } },
            _ => VirtualSocketState::Closed,
        };
        assert!(t.vsock.state == want, "C17: a peer FIN is answered per the state diagram (own FIN follows from LastAck)");
        if matches!(st, VirtualSocketState::Established) {
            assert!(t.vsock.seq_nr == SeqNr(OUR_SEQ.wrapping_add(1)), "C17: the own FIN takes the sequence number following the last data segment");
        }
    }
    if matches!(st, VirtualSocketState::SynAckSent { .. }) {
        assert!(t.vsock.state == VirtualSocketState::Closed, "C17: FIN before the handshake completed closes the connection");
    }
    if let VirtualSocketState::LastAck { .. } = st {
        assert!(unsafe { AR_CALLS } == 0, "C03: a repeated FIN does not queue a second end-of-stream");
        assert!(t.vsock.state == if acks_fin { VirtualSocketState::Closed } else { st }, "C17: LastAck ends when our FIN is acknowledged");
        assert!(t.vsock.last_consumed_remote_seq_nr == SeqNr(PEER_LAST), "C04: a repeated FIN does not move the acknowledgement number");
    }
    finish(t);
}

macro_rules! fin_instance {
    ($name:ident, $st:expr, $rel:expr) => {
        crate::verif_tier_c! {
        #[kani::stub(crate::stream_rx::UserRx::add_remove, crate::stream_rx::UserRx::stub_add_remove)]
        #[kani::unwind(5)]
        fn $name() {
            fin_step($st, $rel);
            kani::cover!(true, "end of harness reachable (assumptions satisfiable, no unconditional failure)");
        }
        }
    };
}

// @verif id=VS.pim.fin.est props=C17,C03,C04,C07,C09 tier=quick timeout=1200 mem=16
// @functions VirtualSocket::process_incoming_message (ST_FIN), UserTx::mark_vsock_closed, VirtualSocket::force_immediate_ack
// @stubs UserRx::add_remove -> contract stub (records offset/type, returns any of Consumed/AlreadyPresent/Unavailable); the real function is decided by OOQ.add.* / RX.add.*
// @bounds state Established; FIN exactly in sequence (seq_nr == last consumed + 1 == 0, across the 16-bit wrap), ANY ack_nr/window/timestamps; reassembly queue empty
// @asserts last consumed := FIN number (so it is acknowledged), an immediate ACK is forced, the writer is told the peer closed, state LastAck{our_fin = next own number (consumed), remote_fin}; no datagram emitted inside the call, no error
// @unwindset make_tx_at=9,__vs::record=37
// @tier C
fin_instance!(vs_pim_fin_established_in_seq, VirtualSocketState::Established, 0);

// @verif id=VS.pim.fin.est.p1 props=C17,C03,C04 tier=quick timeout=1200 mem=16
// @functions VirtualSocket::process_incoming_message (ST_FIN)
// @bounds state Established; FIN one AHEAD of the next expected number (a data packet is still missing), ANY ack_nr/window
// @asserts a FIN is honoured only in sequence: nothing changes at all (no state change, nothing consumed, no EOF queued, writer not told)
// @unwindset make_tx_at=9,__vs::record=37
// @tier C
fin_instance!(vs_pim_fin_established_ahead, VirtualSocketState::Established, 1);

// @verif id=VS.pim.fin.est.m1 props=C17,C03,C04 tier=quick timeout=1200 mem=16
// @functions VirtualSocket::process_incoming_message (ST_FIN)
// @bounds state Established; FIN carrying an already consumed sequence number (one behind)
// @asserts nothing changes at all
// @unwindset make_tx_at=9,__vs::record=37
// @tier C
fin_instance!(vs_pim_fin_established_behind, VirtualSocketState::Established, -1);

// @verif id=VS.pim.fin.fw1 props=C17,C03,C04,C09 tier=quick timeout=1200 mem=16
// @functions VirtualSocket::process_incoming_message (ST_FIN)
// @bounds state FinWait1 (own FIN = OUR_SEQ-1); FIN in sequence, ANY ack_nr
// @asserts Closed if it also acknowledges our FIN, else LastAck keeping our FIN number; FIN consumed, immediate ACK forced
// @unwindset make_tx_at=9,__vs::record=37
// @tier C
fin_instance!(vs_pim_fin_finwait1_in_seq, VirtualSocketState::FinWait1 { our_fin: SeqNr(OUR_SEQ.wrapping_sub(1)) }, 0);

// @verif id=VS.pim.fin.fw1.p1 props=C17,C03,C04,C09 tier=quick timeout=1200 mem=16
// @functions VirtualSocket::process_incoming_message (ST_FIN)
// @bounds state FinWait1 (own FIN = OUR_SEQ-1); FIN one AHEAD of the next expected number, ANY ack_nr (including one that acknowledges our FIN: simultaneous close with a data packet still missing)
// @asserts a FIN is honoured only in sequence: nothing changes at all, whatever it acknowledges
// @unwindset make_tx_at=9,__vs::record=37
// @tier C
fin_instance!(vs_pim_fin_finwait1_ahead, VirtualSocketState::FinWait1 { our_fin: SeqNr(OUR_SEQ.wrapping_sub(1)) }, 1);

// @verif id=VS.pim.fin.fw2 props=C17,C03,C04 tier=quick timeout=1200 mem=16
// @functions VirtualSocket::process_incoming_message (ST_FIN)
// @bounds state FinWait2; FIN in sequence
// @asserts Closed; FIN consumed
// @unwindset make_tx_at=9,__vs::record=37
// @tier C
fin_instance!(vs_pim_fin_finwait2_in_seq, VirtualSocketState::FinWait2, 0);

// @verif id=VS.pim.fin.fw2.p1 props=C17,C03 tier=thorough timeout=1200 mem=16
// @functions VirtualSocket::process_incoming_message (ST_FIN)
// @bounds state FinWait2; FIN one ahead
// @asserts nothing changes
// @unwindset make_tx_at=9,__vs::record=37
// @tier C
fin_instance!(vs_pim_fin_finwait2_ahead, VirtualSocketState::FinWait2, 1);

// @verif id=VS.pim.fin.la props=C17,C04 tier=thorough timeout=1200 mem=16
// @functions VirtualSocket::process_incoming_message (ST_FIN)
// @bounds state LastAck; repeated FIN (in-sequence number) with ANY ack_nr
// @asserts Closed iff our FIN is acknowledged; the acknowledgement number does not move
// @unwindset make_tx_at=9,__vs::record=37
// @tier C
fin_instance!(vs_pim_fin_lastack, VirtualSocketState::LastAck { our_fin: SeqNr(OUR_SEQ.wrapping_sub(1)), remote_fin: SeqNr(PEER_LAST) }, 0);

// @verif id=VS.pim.fin.sas props=C17 tier=thorough timeout=1200 mem=16
// @functions VirtualSocket::process_incoming_message (ST_FIN)
// @bounds state SynAckSent
// @asserts Closed
// @unwindset make_tx_at=9,__vs::record=37
// @tier C
fin_instance!(vs_pim_fin_synacksent, VirtualSocketState::SynAckSent { count: 1 }, 0);

// ---- ST_DATA ------------------------------------------------------------------------------------

// @verif id=VS.pim.data props=C07,C04,C01,C11,C10,C09 tier=quick timeout=1500 mem=16
// @functions VirtualSocket::process_incoming_message (ST_DATA), VirtualSocket::force_immediate_ack, VirtualSocket::send_ack, VirtualSocket::send_control_packet, VirtualSocket::outgoing_header, SegmentSizes::on_payload_delivered, UtpHeader::serialize
// @bounds state Established; DATA packet (3-byte payload) with seq_nr anywhere in expected-3 ..= expected+3 across the 16-bit wrap, ANY ack_nr/window/timestamps; add_remove result ANY of its contract (Consumed{n <= 3, bytes <= 48}, AlreadyPresent, Unavailable); reassembly queue empty/non-empty before and after: all 4 combinations; SACK value to attach: none or any 16 leading bits; transport ready or blocked
// @asserts a packet behind the cumulative position never reaches the queue and forces an immediate ACK (duplicate); otherwise the queue is addressed at offset seq_nr - (last consumed + 1) exactly once; the acknowledgement position advances by exactly the consumed sequence numbers (never backwards) and unacknowledged bytes by the consumed bytes; if anything is or was held out of order an ACK goes out IN THE SAME CALL carrying ack_nr == the new position and the SACK; a blocked transport keeps the immediate ACK pending; otherwise no datagram
// @stubs UserRx::add_remove / assembler_empty / selective_ack -> contract stubs (DESIGN C01.R3 assume-guarantee cut)
// @unwindset make_tx_at=9,__vs::record=37
crate::verif_tier_c! {
#[kani::stub(crate::stream_rx::UserRx::add_remove, crate::stream_rx::UserRx::stub_add_remove)]
#[kani::stub(crate::stream_rx::UserRx::assembler_empty, crate::stream_rx::UserRx::stub_assembler_empty)]
#[kani::stub(crate::stream_rx::UserRx::selective_ack, crate::stream_rx::UserRx::stub_selective_ack)]
#[kani::unwind(5)]
fn vs_pim_data_packet() {
    let mut t = make_vsock(VirtualSocketState::Established, VsConfig::default());
    let rel: i16 = kani::any();
    kani::assume(rel >= -3 && rel <= 3);
    let expected = PEER_LAST.wrapping_add(1);
    let seq = expected.wrapping_add(rel as u16);
    let arr: u8 = kani::any();
    let (n, b): (u8, u8) = (kani::any(), kani::any());
    kani::assume(arr < 3 && n <= 3 && b <= 48);
    let (was_empty, empty_after): (bool, bool) = (kani::any(), kani::any());
    let has_sack: bool = kani::any();
    let bits: u16 = kani::any();
    let pending: bool = kani::any();
    unsafe {
        AR_RESULT = arr;
        AR_SEQ = n as usize;
        AR_BYTES = b as usize;
        AE_SCRIPT = [was_empty, empty_after, empty_after, empty_after];
        SACK_VALUE = if has_sack { Some(crate::raw::selective_ack::SelectiveAck::deserialize(&[bits as u8, (bits >> 8) as u8, 0, 0, 0, 0, 0, 0])) } else { None };
        TX_MODE = if pending { 1 } else { 0 };
    }
    let h = hdr(Type::ST_DATA, seq, kani::any());
    let w = cx_waker();
    let mut cx = Context::from_waker(&w);
    let r = t.vsock.process_incoming_message(&mut cx, UtpMessage { header: h, data: vec![1u8, 2, 3] });
    let ok = r.is_ok();
    std::mem::forget(r);
    assert!(ok, "C10: a data packet never produces an error");
    kani::cover!(rel > 0 && !pending && sent_n() == 1, "out-of-order packet acknowledged at once");
    kani::cover!(rel == 0 && was_empty && empty_after && arr == 0, "plain in-order packet");
    let (consumed_n, consumed_b) = if rel >= 0 && arr == 0 { (n as u16, b as usize) } else { (0, 0) };
    let pos = PEER_LAST.wrapping_add(consumed_n);
    assert!(t.vsock.last_consumed_remote_seq_nr == SeqNr(pos), "C04: the acknowledgement position advances by exactly the in-order sequence numbers consumed, never backwards");
    if rel < 0 {
        assert!(unsafe { AR_CALLS } == 0, "C01: a packet behind the cumulative position never reaches the reassembly queue");
        assert!(t.vsock.consumed_but_unacked_bytes >= 2 * 65535, "C07: a duplicate forces an immediate ACK that no later change of the segment size can cancel");
        assert!(sent_n() == 0, "C07: the forced ACK is emitted by the ACK step of the same poll");
    } else {
        assert!(unsafe { AR_CALLS == 1 && AR_OFFSET == rel as usize && !AR_IS_FIN && AR_PLEN == 3 },
            "C01: the payload is offered to the reassembly queue exactly once, at offset seq_nr - (last consumed + 1)");
        let disorder = !was_empty || !empty_after;
        if disorder {
            if pending {
                assert!(sent_n() == 0 && t.vsock.consumed_but_unacked_bytes >= 2 * 65535, "C07: with a blocked transport the immediate ACK stays pending for the next poll (whatever the segment size becomes)");
            } else {
                assert!(sent_n() == 1, "C07: an out-of-order or gap-filling packet is acknowledged immediately, in the same call");
                let (sh, sn) = sent_header(0).unwrap();
                assert!(sh.htype == Type::ST_STATE && sn == sent_total(0), "C11: the ACK is a bare state packet");
                assert!(sh.ack_nr == SeqNr(pos), "C04: the ACK carries the highest in-order sequence number received");
                assert!(sh.connection_id == SeqNr(CONN_ID_SEND), "C11: connection id owed to the peer");
                match (sh.extensions.selective_ack, unsafe { SACK_VALUE }) {
                    (None, None) => {}
                    (Some(a), Some(bv)) => assert!(a.as_bytes()[0] == bv.as_bytes()[0] && a.as_bytes()[1] == bv.as_bytes()[1], "C04: the SACK bits are exactly those the reassembly queue reports"),
                    _ => assert!(false, "C04: SACK attached exactly when the reassembly queue reports one"),
                }
                assert!(t.vsock.consumed_but_unacked_bytes == 0 && t.vsock.last_sent_ack_nr == SeqNr(pos), "C07: ACK bookkeeping reset by the emitted ACK");
            }
        } else {
            assert!(sent_n() == 0, "C07: a plain in-order packet is not acknowledged inside packet processing");
            assert!(t.vsock.consumed_but_unacked_bytes == consumed_b, "C07: unacknowledged bytes grow by the bytes consumed");
        }
    }
    finish(t);
}
}

// ---- cumulative ACK of in-flight data: ring truncation and writer wake-up ---------------------------

// shared body of VS.pam.ack / VS.pam.dup / VS.pam.ack2
fn ack_frees_step(dup_data: bool) {
    ack_frees_step_sized(dup_data, 6, 4)
}
/// `fill` bytes buffered, one in-flight segment of `seg` bytes
fn ack_frees_step_sized(dup_data: bool, fill: usize, seg: usize) {
    use crate::stream_tx_segments::verif_stream_tx_segments__seg::segments_with;
    let mut t = make_vsock(VirtualSocketState::Established, VsConfig { link_mtu: 52, rx_buf: 12, nagle: true, ring: (8, 3, fill), tx_max: 8 });
    {
        let old = std::mem::replace(&mut t.vsock.user_tx_segments, segments_with::<1>(OUR_SEQ, [seg], 0b1, 9_900, false));
        std::mem::forget(old);
    }
    t.vsock.last_sent_seq_nr = SeqNr(OUR_SEQ);
    t.vsock.seq_nr = SeqNr(OUR_SEQ.wrapping_add(1));
    t.vsock.rto_retransmissions = 1;
    t.vsock.timers.retransmit = Timer::Armed { expires_at: now_at(T0_US + 100_000) };
    t.vsock.user_tx.locked.write().writer_waker = Some(crate::verif_lib__support::waker(W_WRITER));
    // either a bare state packet, or a DUPLICATE data packet (sequence number already consumed) that is
    // the first datagram to acknowledge our segment
    let h = hdr(if dup_data { Type::ST_DATA } else { Type::ST_STATE }, PEER_LAST, OUR_SEQ);
    inbox_push(&t, UtpMessage { header: h, data: if dup_data { vec![7u8, 8] } else { Vec::new() } });
    let w = cx_waker();
    let mut cx = Context::from_waker(&w);
    let r = t.vsock.process_all_incoming_messages(&mut cx);
    let ok = r.is_ok();
    std::mem::forget(r);
    assert!(ok, "C10: an ordinary acknowledgement is processed without error");
    assert!(t.vsock.user_tx_segments.is_empty() && t.vsock.user_tx_segments.total_len_bytes() == 0, "C01: the acknowledged segment leaves the queue");
    {
        use ringbuf::traits::Consumer;
        let c = t.vsock.user_tx.consumer.lock();
        let (a, b) = c.as_slices();
        assert!(a.len() + b.len() == fill - seg, "C19: exactly the acknowledged bytes are released from the send buffer");
        let first = if a.len() > 0 { a[0] } else { b[0] };
        assert!(first == t.ring_model[seg], "C01: the unacknowledged bytes keep their content and order");
    }
    assert!(crate::verif_lib__support::wakes(W_WRITER) == 1, "C19: a blocked writer is woken as soon as acknowledgements free space");
    assert!(unsafe { CC_ACKED } == seg, "C15: the controller is credited with the acknowledged bytes");
    assert!(t.vsock.rto_retransmissions == 0, "C05: new data acknowledged ends the single-segment RTO mode");
    assert!(t.vsock.timers.retransmit == Timer::Idle, "C06: with nothing outstanding the retransmission timer stops");
    assert!(t.vsock.last_remote_window == h.wnd_size, "C05: advertised window recorded");
    kani::cover!(true, "end of harness reachable (assumptions satisfiable, no unconditional failure)");
    finish(t);
}

// @verif id=VS.pam.ack props=C19,C02,C01,C06,C09 tier=quick timeout=1500 mem=16
// @functions VirtualSocket::process_all_incoming_messages, VirtualSocket::process_incoming_message (ST_STATE), Segments::remove_up_to_ack, UserTx::truncate_front, RttEstimator::sample, MockCc::on_ack
// @bounds established socket, MSS 4; ONE 4-byte segment in flight (sent once, 100 ms ago) over 6 buffered bytes; a blocked writer registered; one ST_STATE packet in the inbox acknowledging exactly that segment (ack_nr = its sequence number, across the 16-bit wrap), ANY window/timestamps
// @asserts the acknowledged 4 bytes - and only those - are removed from the FRONT of the send buffer (2 bytes stay, content preserved), the segment queue is empty, the blocked writer is woken as soon as the acknowledgement frees space, the controller is credited with 4 bytes, RTO mode is left, the retransmission timer stops
// @unwindset make_tx_at=9,__vs::record=37
crate::verif_tier_c! {
#[kani::unwind(6)]
fn vs_ack_frees_buffer_and_wakes_writer() {
    ack_frees_step(false);
}
}

// @verif id=VS.pam.ack2 props=C19,C02 tier=quick timeout=1500 mem=16
// @functions VirtualSocket::process_all_incoming_messages, UserTx::truncate_front
// @bounds as VS.pam.ack, but the send buffer is completely FULL (8 of 8 bytes) and the acknowledged segment is only 2 bytes (less than one MSS of 4)
// @asserts the blocked writer is woken although the freed space is smaller than a segment (woken as soon as acknowledgements free space); 6 bytes stay buffered
// @unwindset make_tx_at=9,__vs::record=37
crate::verif_tier_c! {
#[kani::unwind(6)]
fn vs_small_ack_still_wakes_blocked_writer() {
    ack_frees_step_sized(false, 8, 2);
}
}

// @verif id=VS.pam.dup props=C01,C19,C07 tier=quick timeout=1500 mem=16
// @functions VirtualSocket::process_all_incoming_messages, VirtualSocket::process_incoming_message (ST_DATA duplicate arm), Segments::remove_up_to_ack, UserTx::truncate_front
// @bounds as VS.pam.ack, but the acknowledging datagram is a DUPLICATE data packet (its sequence number was already consumed)
// @asserts the acknowledgement carried by a duplicate is honoured exactly like any other: the acknowledged bytes leave the send buffer together with their segment (otherwise later segments would be cut from the wrong place of the buffer), the writer is woken
// @unwindset make_tx_at=9,__vs::record=37
crate::verif_tier_c! {
#[kani::unwind(6)]
fn vs_ack_on_duplicate_data_frees_buffer() {
    ack_frees_step(true);
}
}
