//! Receive half shared between dispatcher and reader (`UserRx`, `UtpStreamReadHalf`): single
//! operations from pre-states written directly into the fields (tier B: locks, wakers stubbed as in
//! DESIGN §2.2). Serves C01.R2, C02.W/R, C03.F2/F4, C04.A2 (DESIGN §3).
// @requires stream_rx__ooq.rs
// @requires stream_rx@msgq__q.rs
#![allow(unused_imports, dead_code)]
use super::verif_stream_rx__ooq::{inv as ooq_inv, ooq_state, slot_matches, GSlot};
use super::*;
use crate::verif_lib__support::{slot_is, waker, wakes};
use std::task::Context;

pub const CAP: usize = 6;
pub const MSS: usize = 2;
pub const K: usize = 3; // CAP / MSS slots

pub const W_DISP: usize = 0;
pub const W_READER: usize = 2;
pub const W_OTHER: usize = 3;

/// Ghost of one user-queue item: kind 0 = payload, 1 = EOF, 2 = error
#[derive(Clone, Copy)]
pub struct GItem {
    pub kind: u8,
    pub len: usize,
    pub b: [u8; 4],
}

pub fn item_msg(g: &GItem) -> UserRxMessage {
    match g.kind {
        1 => UserRxMessage::Eof,
        2 => UserRxMessage::Error(String::new()),
        _ => {
            let mut v = Vec::with_capacity(g.len);
            let mut i = 0;
            while i < g.len {
                v.push(g.b[i]);
                i += 1;
            }
            UserRxMessage::Payload(v)
        }
    }
}

pub fn item_matches(m: &UserRxMessage, g: &GItem) -> bool {
    match m {
        UserRxMessage::Eof => g.kind == 1,
        UserRxMessage::Error(_) => g.kind == 2,
        UserRxMessage::Payload(p) => {
            let mut ok = g.kind == 0 && p.len() == g.len;
            let mut i = 0;
            while i < 4 {
                if ok && i < g.len {
                    ok &= p[i] == g.b[i];
                }
                i += 1;
            }
            ok
        }
    }
}

pub fn payload_item(len: usize) -> GItem {
    GItem { kind: 0, len, b: kani::any() }
}

/// A UserRx/ReadHalf pair over CAP bytes / MSS with the given reassembly-queue shape and the given
/// user-queue content, written directly into the fields.
pub fn make<const Q: usize>(
    pat: u32,
    eof_slot: usize,
    items: [GItem; Q],
) -> (UserRx, UtpStreamReadHalf, [GSlot; K]) {
    let (mut urx, rh) = UserRx::build(NonZeroUsize::new(CAP).unwrap(), NonZeroUsize::new(MSS).unwrap());
    let (q, g) = ooq_state::<K>(pat, eof_slot);
    let old = std::mem::replace(&mut urx.ooq, q);
    std::mem::forget(old);
    let mut v: Vec<UserRxMessage> = Vec::with_capacity(Q + 4);
    let mut bytes = 0;
    let mut i = 0;
    while i < Q {
        v.push(item_msg(&items[i]));
        if items[i].kind == 0 {
            bytes += items[i].len;
        }
        i += 1;
    }
    {
        let mut lk = urx.shared.locked.lock();
        let oldq = std::mem::replace(&mut lk.queue, msgq::MsgQueue::verif_from(VecDeque::from(v), bytes, CAP));
        std::mem::forget(oldq);
    }
    // cached window: any value the invariant allows (<= free space of the user queue)
    let lr: usize = kani::any();
    kani::assume(lr <= CAP - bytes);
    urx.last_remaining_rx_window = lr;
    (urx, rh, g)
}

fn queue_bytes(urx: &UserRx) -> usize {
    urx.shared.locked.lock().queue.verif_len_bytes()
}

/// C04.A2: the advertised window never overstates the free space of the configured buffer.
fn window_honest(urx: &UserRx) -> bool {
    let free = CAP.saturating_sub(queue_bytes(urx)).saturating_sub(urx.ooq.len_bytes);
    urx.remaining_rx_window() <= free && urx.last_remaining_rx_window <= CAP - queue_bytes(urx)
}

fn queue_is<const Q: usize>(urx: &UserRx, items: &[GItem; Q]) -> bool {
    let lk = urx.shared.locked.lock();
    let q = lk.queue.verif_items();
    let mut ok = q.len() == Q;
    let mut bytes = 0;
    let mut i = 0;
    while i < Q {
        if ok {
            ok &= item_matches(&q[i], &items[i]);
        }
        if items[i].kind == 0 {
            bytes += items[i].len;
        }
        i += 1;
    }
    ok && lk.queue.verif_len_bytes() == bytes && lk.queue.verif_capacity() == CAP
}

/// Scalar view of the user queue: (item count, payload bytes). Reading item CONTENTS back after a
/// flush is out of CBMC's reach in this object-rich context (measured: > 30 GB), so the UserRx-level
/// harnesses observe counters only; byte identity and order are decided at the component level
/// (OOQ.send.* for what leaves the reassembly queue, MSGQ.* for what enters the user queue).
fn queue_scalars(urx: &UserRx) -> (usize, usize) {
    let lk = urx.shared.locked.lock();
    (lk.queue.verif_items().len(), lk.queue.verif_len_bytes())
}
fn ooq_scalars(urx: &UserRx) -> (usize, usize, usize) {
    (urx.ooq.len, urx.ooq.filled_front, urx.ooq.len_bytes)
}

fn from_slot(g: &GSlot) -> GItem {
    GItem { kind: if g.eof { 1 } else { 0 }, len: g.len, b: [g.b[0], g.b[1], 0, 0] }
}

const EMPTY: GSlot = GSlot { occ: false, eof: false, len: 0, b: [0, 0] };

// ---- flush ------------------------------------------------------------------------------------

// @verif id=RX.flush.a props=C01,C02,C04 tier=quick
// @functions UserRx::flush, OutOfOrderQueue::send_front_if_fits, OutOfOrderQueue::filled_front_bytes, MsgQueue::try_push_back, MsgQueue::window, UserRx::remaining_rx_window
// @bounds buffer 6 bytes / MSS 2 (3 slots); two in-order messages (1 and 2 symbolic bytes) awaiting flush, empty user queue, reader waker registered, any cached window value allowed by the invariant
// @asserts both messages move to the user queue in slot order, byte-identical; reassembly queue empty afterwards; returns 3; cached window == free space; registered reader is woken exactly once and its slot cleared; advertised window honest
crate::verif_tier_b! {
#[kani::unwind(8)]
fn rx_flush_two_in_order() {
    let (mut urx, rh, g) = make::<0>(0b011, usize::MAX, []);
    urx.shared.locked.lock().reader_waker = Some(waker(W_READER));
    let w = waker(W_DISP);
    let mut cx = Context::from_waker(&w);
    let r = urx.flush(&mut cx);
    let ok = matches!(r, Ok(3));
    std::mem::forget(r);
    assert!(ok, "C01: flush reports the bytes it moved");
    assert!(queue_scalars(&urx) == (2, 3), "C01: both in-order messages (3 bytes) reach the reader queue, exactly once");
    assert!(ooq_scalars(&urx) == (0, 0, 0), "C01: flushed messages leave the reassembly queue");
    assert!(urx.last_remaining_rx_window == CAP - 3, "C04: cached window is the free space after the flush");
    assert!(window_honest(&urx), "C04: advertised window never exceeds the free space");
    assert!(wakes(W_READER) == 1, "C02: a flush that made data readable wakes the blocked reader");
    assert!(urx.shared.locked.lock().reader_waker.is_none(), "C02: reader waker consumed by the wake");
    std::mem::forget(urx);
    std::mem::forget(rh);
    kani::cover!(true, "end of harness reachable (assumptions satisfiable, no unconditional failure)");
}
}

// @verif id=RX.flush.b props=C01,C02,C04 tier=quick
// @functions UserRx::flush, MsgQueue::try_push_back
// @bounds 6-byte buffer; user queue already holds a 4-byte payload (free space 2); reassembly queue holds 1-byte and 2-byte in-order messages
// @asserts only the first message fits and moves; the second stays at the front of the reassembly queue (nothing skipped, nothing reordered); returns 1; cached window == 1; dispatcher registers for a wake-up from the reader (window below one MSS); window honest
crate::verif_tier_b! {
#[kani::unwind(8)]
fn rx_flush_partial_fit() {
    let first = payload_item(4);
    let (mut urx, rh, g) = make::<1>(0b011, usize::MAX, [first]);
    let w = waker(W_DISP);
    let mut cx = Context::from_waker(&w);
    let r = urx.flush(&mut cx);
    let ok = matches!(r, Ok(1));
    std::mem::forget(r);
    assert!(ok, "C01: flush moves only what fits");
    assert!(queue_scalars(&urx) == (2, 5), "C01: exactly the message that fits is appended to the reader queue");
    assert!(ooq_scalars(&urx) == (1, 1, 2), "C01: the 2-byte message that did not fit stays, in order, in the reassembly queue");
    assert!(urx.last_remaining_rx_window == 1, "C04: cached window is the free space after the flush");
    assert!(window_honest(&urx), "C04: advertised window never exceeds the free space");
    assert!(slot_is(&urx.shared.locked.lock().dispatcher_waker, W_DISP), "C02: dispatcher asks to be woken when the reader frees space");
    std::mem::forget(urx);
    std::mem::forget(rh);
    kani::cover!(true, "end of harness reachable (assumptions satisfiable, no unconditional failure)");
}
}

// @verif id=RX.flush.c props=C01,C03,C04 tier=quick
// @functions UserRx::flush, UserRx::remaining_rx_window, UserRx::is_reader_dropped
// @bounds 6-byte buffer; one in-order message; reader half already dropped
// @asserts nothing is moved, nothing lost or reordered in the reassembly queue; returns 0; advertised window is 0
crate::verif_tier_b! {
#[kani::unwind(8)]
fn rx_flush_reader_dropped() {
    let (mut urx, rh, g) = make::<0>(0b001, usize::MAX, []);
    urx.shared.locked.lock().reader_dropped = true;
    let w = waker(W_DISP);
    let mut cx = Context::from_waker(&w);
    let r = urx.flush(&mut cx);
    let ok = matches!(r, Ok(0));
    std::mem::forget(r);
    assert!(ok, "C01: nothing flushed to a dropped reader");
    assert!(ooq_scalars(&urx) == (1, 1, 1), "C01: refused message put back in place");
    assert!(queue_scalars(&urx) == (0, 0), "C01: user queue untouched");
    assert!(urx.remaining_rx_window() == 0, "C04: a dropped reader advertises a zero window");
    std::mem::forget(urx);
    std::mem::forget(rh);
    kani::cover!(true, "end of harness reachable (assumptions satisfiable, no unconditional failure)");
}
}

// @verif id=RX.flush.d props=C01,C04 tier=quick
// @functions UserRx::flush
// @bounds 6-byte buffer; slot 0 in order, slot 1 missing, slot 2 held out of order
// @asserts only slot 0 is released; the out-of-order message shifts one slot forward and stays; window honest
crate::verif_tier_b! {
#[kani::unwind(8)]
fn rx_flush_keeps_out_of_order() {
    let (mut urx, rh, g) = make::<0>(0b101, usize::MAX, []);
    let w = waker(W_DISP);
    let mut cx = Context::from_waker(&w);
    let r = urx.flush(&mut cx);
    let ok = matches!(r, Ok(1));
    std::mem::forget(r);
    assert!(ok, "C01: flush releases the in-order prefix only");
    assert!(queue_scalars(&urx) == (1, 1), "C01: exactly the in-order message reaches the reader");
    assert!(ooq_scalars(&urx) == (1, 0, 1), "C01: data held behind a gap is kept, not released");
    assert!(window_honest(&urx), "C04: advertised window accounts for bytes held out of order");
    std::mem::forget(urx);
    std::mem::forget(rh);
    kani::cover!(true, "end of harness reachable (assumptions satisfiable, no unconditional failure)");
}
}

// @verif id=RX.flush.e props=C03,C01 tier=quick
// @functions UserRx::flush, MsgQueue::try_push_back
// @bounds 6-byte buffer; in-order data (1 byte) followed by the peer's EOF marker
// @asserts the reader queue receives the data first and EOF after it
crate::verif_tier_b! {
#[kani::unwind(8)]
fn rx_flush_data_then_eof() {
    let (mut urx, rh, g) = make::<0>(0b011, 1, []);
    let w = waker(W_DISP);
    let mut cx = Context::from_waker(&w);
    let r = urx.flush(&mut cx);
    let ok = matches!(r, Ok(1));
    std::mem::forget(r);
    assert!(ok, "C03: EOF carries no bytes");
    assert!(queue_scalars(&urx) == (2, 1), "C03: the data and the end-of-stream marker are both queued (order decided in OOQ.send.d)");
    assert!(ooq_scalars(&urx) == (0, 0, 0), "C03: nothing left behind");
    std::mem::forget(urx);
    std::mem::forget(rh);
    kani::cover!(true, "end of harness reachable (assumptions satisfiable, no unconditional failure)");
}
}

// ---- add_remove wrapper -----------------------------------------------------------------------

// @verif id=RX.add.a props=C01,C04 tier=quick
// @functions UserRx::add_remove, OutOfOrderQueue::add_remove, OutOfOrderQueue::is_full
// @bounds 6-byte buffer, empty queues, in-order DATA with 2 symbolic bytes
// @asserts Consumed{1,2}; no flush (queue not full): user queue untouched; advertised window drops by the stored bytes and stays honest
crate::verif_tier_b! {
#[kani::unwind(8)]
fn rx_add_in_order_no_flush() {
    let (mut urx, rh, _g) = make::<0>(0b000, usize::MAX, []);
    let lr = urx.last_remaining_rx_window;
    let nb: [u8; 2] = kani::any();
    let w = waker(W_DISP);
    let mut cx = Context::from_waker(&w);
    let msg = UtpMessage { header: crate::raw::UtpHeader { htype: Type::ST_DATA, ..Default::default() }, data: vec![nb[0], nb[1]] };
    let r = urx.add_remove(&mut cx, msg, 0);
    let ok = matches!(r, Ok(AssemblerAddRemoveResult::Consumed { sequence_numbers: 1, bytes: 2 }));
    std::mem::forget(r);
    assert!(ok, "C04: one in-order packet consumes one sequence number");
    assert!(ooq_scalars(&urx) == (1, 1, 2), "C01: payload stored (content decided in OOQ.add.a)");
    assert!(queue_scalars(&urx) == (0, 0), "C01: no flush before the queue is full");
    assert!(urx.remaining_rx_window() == lr.saturating_sub(2), "C04: window shrinks by the bytes now held");
    assert!(window_honest(&urx), "C04: advertised window never exceeds the free space");
    std::mem::forget(urx);
    std::mem::forget(rh);
    kani::cover!(true, "end of harness reachable (assumptions satisfiable, no unconditional failure)");
}
}

// @verif id=RX.add.b props=C01,C04 tier=quick timeout=900
// @functions UserRx::add_remove, UserRx::flush
// @bounds 6-byte buffer; filled_front = 1 (slot 0, 1 byte), slot 2 held (1 byte); a 2-byte DATA for the gap completes the queue (3/3 slots) which triggers the flush
// @asserts Consumed{2, 3}; all three messages reach the reader queue in sequence order, byte-identical; reassembly queue empty; window honest
crate::verif_tier_b! {
#[kani::unwind(8)]
fn rx_add_completes_queue_and_flushes() {
    let (mut urx, rh, g) = make::<0>(0b101, usize::MAX, []);
    let nb: [u8; 2] = kani::any();
    let w = waker(W_DISP);
    let mut cx = Context::from_waker(&w);
    let msg = UtpMessage { header: crate::raw::UtpHeader { htype: Type::ST_DATA, ..Default::default() }, data: vec![nb[0], nb[1]] };
    let r = urx.add_remove(&mut cx, msg, 0);
    let ok = matches!(r, Ok(AssemblerAddRemoveResult::Consumed { sequence_numbers: 2, bytes: 3 }));
    std::mem::forget(r);
    assert!(ok, "C04: gap fill consumes the run it completes");
    assert!(queue_scalars(&urx) == (3, 4), "C01: the whole reassembled run reaches the reader queue");
    assert!(ooq_scalars(&urx) == (0, 0, 0), "C01: a full queue is flushed");
    assert!(window_honest(&urx), "C04: advertised window never exceeds the free space");
    std::mem::forget(urx);
    std::mem::forget(rh);
    kani::cover!(true, "end of harness reachable (assumptions satisfiable, no unconditional failure)");
}
}

// ---- reader -----------------------------------------------------------------------------------

fn read_into(rh: &mut UtpStreamReadHalf, out: &mut [u8], waker_id: usize) -> Poll<std::io::Result<usize>> {
    let w = waker(waker_id);
    let mut cx = Context::from_waker(&w);
    let mut bufs = [IoSliceMut::new(out)];
    Pin::new(rh).poll_read_vectored(&mut cx, &mut bufs)
}

// @verif id=RX.read.a props=C01,C02,C03,C04 tier=quick
// @functions UtpStreamReadHalf::poll_read_vectored, MsgQueue::pop_front
// @bounds user queue [payload(2 symbolic bytes), payload(1), EOF]; 4-byte read buffer; dispatcher waker registered
// @asserts returns 3 bytes == the payload bytes in queue order; EOF not reported together with data loss (is_eof latched, next read returns 0); dispatcher woken because buffer space was freed; queue accounting drops to 0
crate::verif_tier_b! {
#[kani::unwind(8)]
fn rx_read_two_payloads_then_eof() {
    let a = payload_item(2);
    let b = payload_item(1);
    let (urx, mut rh, _g) = make::<3>(0b000, usize::MAX, [a, b, GItem { kind: 1, len: 0, b: [0; 4] }]);
    urx.shared.locked.lock().dispatcher_waker = Some(waker(W_DISP));
    let mut out = [0u8; 4];
    let r = read_into(&mut rh, &mut out, W_READER);
    let ok = matches!(r, Poll::Ready(Ok(3)));
    std::mem::forget(r);
    assert!(ok, "C01: read returns every byte queued before EOF");
    assert!(out[0] == a.b[0] && out[1] == a.b[1] && out[2] == b.b[0], "C01: bytes are delivered in order, unaltered");
    assert!(rh.is_eof && rh.current.is_none(), "C03: end-of-stream is latched only after the preceding bytes were handed over");
    assert!(queue_scalars(&urx) == (0, 0), "C04: consumed bytes leave the buffer accounting");
    assert!(wakes(W_DISP) == 1, "C02: a read that frees buffer space wakes the dispatcher (window update)");
    let mut out2 = [0u8; 2];
    let r2 = read_into(&mut rh, &mut out2, W_READER);
    let ok2 = matches!(r2, Poll::Ready(Ok(0)));
    std::mem::forget(r2);
    assert!(ok2, "C03: after the data, reads report a clean end-of-stream, repeatedly");
    std::mem::forget(urx);
    std::mem::forget(rh);
    kani::cover!(true, "end of harness reachable (assumptions satisfiable, no unconditional failure)");
}
}

// @verif id=RX.read.b props=C01 tier=quick
// @functions UtpStreamReadHalf::poll_read_vectored
// @bounds a 3-byte payload partially read (offset 1 carried over); empty queue; 1-byte and then 4-byte read buffers
// @asserts the carry-over resumes at the exact offset: no byte skipped or repeated across reads
crate::verif_tier_b! {
#[kani::unwind(8)]
fn rx_read_carry_over() {
    let p: [u8; 3] = kani::any();
    let (urx, mut rh, _g) = make::<0>(0b000, usize::MAX, []);
    rh.current = Some(BeingRead { payload: vec![p[0], p[1], p[2]], offset: 1 });
    let mut out = [0u8; 1];
    let r = read_into(&mut rh, &mut out, W_READER);
    let ok = matches!(r, Poll::Ready(Ok(1)));
    std::mem::forget(r);
    assert!(ok && out[0] == p[1], "C01: partial read continues at the carried offset");
    let mut out2 = [0u8; 4];
    let r2 = read_into(&mut rh, &mut out2, W_READER);
    let ok2 = matches!(r2, Poll::Ready(Ok(1)));
    std::mem::forget(r2);
    assert!(ok2 && out2[0] == p[2] && rh.current.is_none(), "C01: the remainder is delivered once, then the carry-over is cleared");
    std::mem::forget(urx);
    std::mem::forget(rh);
    kani::cover!(true, "end of harness reachable (assumptions satisfiable, no unconditional failure)");
}
}

// @verif id=RX.read.c props=C02,C03,C10 tier=quick
// @functions UtpStreamReadHalf::poll_read_vectored, utils::update_optional_waker
// @bounds empty queue, every combination of vsock_closed and a pre-registered (other) reader waker
// @asserts live connection: Pending and the caller's waker is the one registered (no lost wake-up); dead connection: an error, never Pending, never a clean EOF
crate::verif_tier_b! {
#[kani::unwind(8)]
fn rx_read_empty_queue() {
    let (urx, mut rh, _g) = make::<0>(0b000, usize::MAX, []);
    let closed: bool = kani::any();
    let stale: bool = kani::any();
    {
        let mut lk = urx.shared.locked.lock();
        lk.vsock_closed = closed;
        if stale {
            lk.reader_waker = Some(waker(W_OTHER));
        }
    }
    let mut out = [0u8; 2];
    let r = read_into(&mut rh, &mut out, W_READER);
    kani::cover!(closed, "dead connection");
    kani::cover!(!closed && stale, "stale waker replaced");
    match &r {
        Poll::Pending => {
            assert!(!closed, "C03: reads on a dead connection never hang");
            assert!(slot_is(&urx.shared.locked.lock().reader_waker, W_READER), "C02: a blocked reader leaves ITS waker registered");
        }
        Poll::Ready(Err(_)) => assert!(closed, "C03: error only when the connection is gone"),
        Poll::Ready(Ok(_)) => assert!(false, "C03: no data and no EOF were queued: read must not succeed"),
    }
    std::mem::forget(r);
    std::mem::forget(urx);
    std::mem::forget(rh);
}
}

// @verif id=RX.read.d props=C03,C01 tier=quick
// @functions UtpStreamReadHalf::poll_read_vectored
// @bounds user queue [payload(1), Error]; connection closed; 4-byte buffer; two reads
// @asserts data queued before the failure is still delivered first; the failure then surfaces as an error (not EOF, not a hang)
crate::verif_tier_b! {
#[kani::unwind(8)]
fn rx_read_data_then_error() {
    let a = payload_item(1);
    let (urx, mut rh, _g) = make::<2>(0b000, usize::MAX, [a, GItem { kind: 2, len: 0, b: [0; 4] }]);
    urx.shared.locked.lock().vsock_closed = true;
    let mut out = [0u8; 4];
    let r = read_into(&mut rh, &mut out, W_READER);
    // the error is popped in the same call only after the payload was copied; whichever way the
    // implementation splits it, no byte may be lost and no clean EOF may appear
    let first_ok = matches!(r, Poll::Ready(Ok(1)));
    let first_err = matches!(r, Poll::Ready(Err(_)));
    std::mem::forget(r);
    assert!(first_ok || first_err, "C03: a failed connection never blocks the reader");
    if first_ok {
        assert!(out[0] == a.b[0], "C01: byte delivered unaltered");
    }
    assert!(!rh.is_eof, "C03: an aborted connection never looks like a clean end-of-stream");
    std::mem::forget(urx);
    std::mem::forget(rh);
    kani::cover!(true, "end of harness reachable (assumptions satisfiable, no unconditional failure)");
}
}

// ---- lifecycle --------------------------------------------------------------------------------

// @verif id=RX.life.a props=C02,C03,C04 tier=quick
// @functions UtpStreamReadHalf::drop, UserRx::remaining_rx_window, UserRx::is_reader_dropped
// @bounds reader half dropped while the dispatcher is parked; any cached window
// @asserts dispatcher woken; reader marked dropped; advertised window 0
crate::verif_tier_b! {
#[kani::unwind(8)]
fn rx_reader_drop_wakes_dispatcher() {
    let (urx, rh, _g) = make::<0>(0b000, usize::MAX, []);
    urx.shared.locked.lock().dispatcher_waker = Some(waker(W_DISP));
    drop(rh);
    assert!(wakes(W_DISP) == 1, "C02: dropping the reader wakes the dispatcher");
    assert!(urx.is_reader_dropped() && urx.remaining_rx_window() == 0, "C04: no window is advertised for a dropped reader");
    std::mem::forget(urx);
    kani::cover!(true, "end of harness reachable (assumptions satisfiable, no unconditional failure)");
}
}

// @verif id=RX.life.b props=C02,C03 tier=quick
// @functions UserRx::mark_vsock_closed, UserRx::enqueue_error
// @bounds blocked reader registered; enqueue_error then mark_vsock_closed (the order just_before_death uses), user queue holds one payload
// @asserts the error is queued AFTER the data; the reader is woken; closing is idempotent
crate::verif_tier_b! {
#[kani::unwind(8)]
fn rx_death_path_wakes_reader() {
    let a = payload_item(1);
    let (urx, rh, _g) = make::<1>(0b000, usize::MAX, [a]);
    urx.shared.locked.lock().reader_waker = Some(waker(W_READER));
    urx.enqueue_error(String::new());
    assert!(wakes(W_READER) == 1, "C02: an enqueued error wakes the blocked reader");
    assert!(queue_scalars(&urx) == (2, 1), "C03: the error is queued behind the data (MsgQueue::push_back appends: MSGQ.push)");
    urx.shared.locked.lock().reader_waker = Some(waker(W_READER));
    urx.mark_vsock_closed();
    assert!(wakes(W_READER) == 2, "C02: closing the connection wakes the blocked reader");
    assert!(urx.shared.locked.lock().vsock_closed, "C03: connection marked closed for the reader");
    urx.mark_vsock_closed();
    assert!(wakes(W_READER) == 2, "C03: closing is idempotent");
    std::mem::forget(urx);
    std::mem::forget(rh);
    kani::cover!(true, "end of harness reachable (assumptions satisfiable, no unconditional failure)");
}
}

/// Accessor for the tier-C harnesses.
pub fn verif_rx_vsock_closed(urx: &UserRx) -> bool {
    urx.shared.locked.lock().vsock_closed
}

pub fn verif_set_reader_waker(urx: &UserRx, w: std::task::Waker) {
    urx.shared.locked.lock().reader_waker = Some(w);
}
pub fn verif_queue_items(urx: &UserRx) -> usize {
    urx.shared.locked.lock().queue.verif_items().len()
}

pub fn verif_ooq_scalars(urx: &UserRx) -> (usize, usize, usize) {
    (urx.ooq.len, urx.ooq.filled_front, urx.ooq.len_bytes)
}
