//! Tier-C support: a `VirtualSocket` built by struct literal, a recording transport, a harness clock,
//! a recording congestion-controller mock and the tier-C stub set (DESIGN §2.2). No harnesses here.
//!
//! Dual mode: under `cargo kani` (cfg(kani), not cfg(test)) `Timers::arm_in` and
//! `UnboundedReceiver::poll_recv` are stubbed and `timers.sleep` is a zeroed, never-touched `Sleep`;
//! in native concrete playback (cfg(kani) + cfg(test): `cargo kani playback`) nothing is stubbed, a
//! real current-thread tokio runtime context is entered, `sleep` is a real `tokio::time::sleep` and the
//! inbox is the real channel.
// @requires socket__support.rs
// @requires stream_tx__tx.rs
#![allow(unused_imports, dead_code, static_mut_refs)]
use super::*;
use crate::stream_rx::UtpStreamReadHalf;
use crate::socket::verif_socket__support::{verif_make_socket, verif_opts};
use crate::stream_tx::verif_stream_tx__tx::make_tx_at;
use crate::verif_lib__support::{base, waker, wakes};
use std::net::{Ipv4Addr, SocketAddr};
use std::task::Context;
use tokio::sync::mpsc::{unbounded_channel, UnboundedSender};

pub const W_DISP: usize = 0;
pub const W_WRITER: usize = 1;
pub const W_READER: usize = 2;

// ---- clock ------------------------------------------------------------------------------------
pub static mut NOW_US: u64 = 0;
pub const T0_US: u64 = 10_000_000; // harness "now" origin: 10 s after the socket was created
pub fn set_now_us(us: u64) {
    unsafe { NOW_US = us }
}
pub fn now_at(us: u64) -> Instant {
    base() + Duration::from_micros(us)
}

#[derive(Clone, Copy, Default)]
pub struct KEnv;
impl UtpEnvironment for KEnv {
    fn now(&self) -> Instant {
        now_at(unsafe { NOW_US })
    }
    fn copy(&self) -> Self {
        KEnv
    }
    fn random_u16(&self) -> u16 {
        7
    }
}

// ---- recording transport ------------------------------------------------------------------------
pub const LOGN: usize = 4;
pub const HDRMAX: usize = 36;
pub static mut SENT_N: usize = 0;
pub static mut SENT_HDR: [[u8; HDRMAX]; LOGN] = [[0u8; HDRMAX]; LOGN];
pub static mut SENT_HLEN: [usize; LOGN] = [0; LOGN];
pub static mut SENT_TOTAL: [usize; LOGN] = [0; LOGN];
/// payload byte at index PROBE_IDX of each vectored datagram (if the payload is that long)
pub static mut PROBE_IDX: usize = 0;
pub static mut SENT_PBYTE: [Option<u8>; LOGN] = [None; LOGN];
/// 0 = deliver, 1 = Pending (socket buffer full), 2 = EMSGSIZE for datagrams longer than EMSG_LIMIT
pub static mut TX_MODE: u8 = 0;
pub static mut EMSG_LIMIT: usize = usize::MAX;

fn record(hdr: &[u8], total: usize, pbyte: Option<u8>) {
    unsafe {
        if SENT_N < LOGN {
            let n = if hdr.len() < HDRMAX { hdr.len() } else { HDRMAX };
            let mut i = 0;
            while i < HDRMAX {
                if i < n {
                    SENT_HDR[SENT_N][i] = hdr[i];
                }
                i += 1;
            }
            SENT_HLEN[SENT_N] = n;
            SENT_TOTAL[SENT_N] = total;
            SENT_PBYTE[SENT_N] = pbyte;
        }
        SENT_N += 1;
    }
}

fn verdict(total: usize) -> Option<Poll<std::io::Result<usize>>> {
    unsafe {
        if TX_MODE == 1 {
            return Some(Poll::Pending);
        }
        if TX_MODE == 2 && total > EMSG_LIMIT {
            return Some(Poll::Ready(Err(std::io::Error::from_raw_os_error(libc::EMSGSIZE))));
        }
    }
    None
}

#[derive(Clone, Copy)]
pub struct KTransport;
impl crate::traits::Transport for KTransport {
    fn recv_from<'a>(&'a self, _buf: &'a mut [u8]) -> impl Future<Output = std::io::Result<(usize, SocketAddr)>> + Send + Sync + 'a {
        std::future::pending()
    }
    fn send_to<'a>(&'a self, buf: &'a [u8], _target: SocketAddr) -> impl Future<Output = std::io::Result<usize>> + Send + Sync + 'a {
        std::future::ready(Ok(buf.len()))
    }
    fn poll_send_to(&self, _cx: &mut Context<'_>, buf: &[u8], _target: SocketAddr) -> Poll<std::io::Result<usize>> {
        if let Some(v) = verdict(buf.len()) {
            return v;
        }
        record(buf, buf.len(), None);
        Poll::Ready(Ok(buf.len()))
    }
    fn bind_addr(&self) -> SocketAddr {
        SocketAddr::new(std::net::IpAddr::V4(Ipv4Addr::LOCALHOST), 1)
    }
}
impl librqbit_dualstack_sockets::PollSendToVectored for KTransport {
    fn poll_send_to_vectored(&self, _cx: &mut Context<'_>, bufs: &[IoSlice<'_>], _target: SocketAddr) -> Poll<std::io::Result<usize>> {
        let (a, b) = (bufs[1].len(), bufs[2].len());
        let total = bufs[0].len() + a + b;
        if let Some(v) = verdict(total) {
            return v;
        }
        let idx = unsafe { PROBE_IDX };
        let pb = if idx < a { Some(bufs[1][idx]) } else if idx < a + b { Some(bufs[2][idx - a]) } else { None };
        record(&bufs[0], total, pb);
        Poll::Ready(Ok(total))
    }
}

pub fn sent_n() -> usize {
    unsafe { SENT_N }
}
/// Parse the i-th recorded datagram's header with the real parser.
pub fn sent_header(i: usize) -> Option<(UtpHeader, usize)> {
    unsafe { UtpHeader::deserialize(&SENT_HDR[i][..SENT_HLEN[i]]) }
}
pub fn sent_total(i: usize) -> usize {
    unsafe { SENT_TOTAL[i] }
}
pub fn sent_pbyte(i: usize) -> Option<u8> {
    unsafe { SENT_PBYTE[i] }
}

// ---- congestion controller mock -----------------------------------------------------------------
pub static mut CC_WINDOW: usize = 0;
pub static mut CC_SSTHRESH: usize = 0;
pub static mut CC_MSS: usize = 0;
pub static mut CC_RTO: usize = 0;
pub static mut CC_ENTER: usize = 0;
pub static mut CC_ACKED: usize = 0;
pub static mut CC_RWND: usize = 0;

#[derive(Debug)]
pub struct MockCc;
impl CongestionController for MockCc {
    fn window(&self) -> usize {
        unsafe { CC_WINDOW }
    }
    fn sshthresh(&self) -> usize {
        unsafe { CC_SSTHRESH }
    }
    fn set_mss(&mut self, mss: usize) {
        unsafe { CC_MSS = mss }
    }
    fn smss(&self) -> usize {
        unsafe { CC_MSS }
    }
    fn on_recovered(&mut self, _c: usize, _s: usize) {}
    fn on_ack(&mut self, _now: Instant, len: usize, _rtt: &RttEstimator) {
        unsafe { CC_ACKED += len }
    }
    fn on_retransmission_timeout(&mut self, _now: Instant) {
        unsafe { CC_RTO += 1 }
    }
    fn on_enter_recovery(&mut self, _now: Instant) {
        unsafe { CC_ENTER += 1 }
    }
    fn set_remote_window(&mut self, win: usize) {
        unsafe { CC_RWND = win }
    }
}

// ---- timers / inbox stubs (symbolic mode only) ----------------------------------------------------
pub static mut ARM_IN_CALLS: usize = 0;
pub static mut ARM_IN_LAST: Duration = Duration::ZERO;
impl Timers {
    pub fn stub_arm_in(&mut self, _cx: &mut std::task::Context<'_>, duration: Duration) -> bool {
        unsafe {
            ARM_IN_CALLS += 1;
            ARM_IN_LAST = duration;
        }
        true
    }
}
pub static mut INBOX: Option<UtpMessage> = None;
pub fn stub_poll_recv<T>(_self: &mut UnboundedReceiver<T>, _cx: &mut Context<'_>) -> Poll<Option<T>> {
    let m = unsafe { (*std::ptr::addr_of_mut!(INBOX)).take() };
    match m {
        Some(m) => {
            let m = std::mem::ManuallyDrop::new(m);
            Poll::Ready(Some(unsafe { std::mem::transmute_copy::<UtpMessage, T>(&*m) }))
        }
        None => Poll::Pending,
    }
}

// ---- assume-guarantee cut at the reassembly queue (DESIGN §3 C01.R3) ------------------------------
// `process_incoming_message` followed by the real `UserRx::add_remove` is a chain of container
// operations that exhausts memory (measured: > 24 GB). For the packet types that reach the queue the
// harness replaces the three `UserRx` calls the dispatcher makes by contract stubs: `add_remove` records its
// arguments and returns a harness-chosen result of its contract (Consumed{n, bytes} / AlreadyPresent /
// Unavailable), `assembler_empty` replays a harness-chosen before/after pair, `selective_ack` returns a
// harness-chosen value. The contract itself is decided on the real code by OOQ.* / RX.* (tiers A/B).
pub static mut AR_CALLS: usize = 0;
pub static mut AR_OFFSET: usize = 0;
pub static mut AR_IS_FIN: bool = false;
pub static mut AR_PLEN: usize = 0;
/// 0 = Consumed{AR_SEQ, AR_BYTES}, 1 = AlreadyPresent, 2 = Unavailable
pub static mut AR_RESULT: u8 = 0;
pub static mut AR_SEQ: usize = 0;
pub static mut AR_BYTES: usize = 0;
pub static mut AE_SCRIPT: [bool; 4] = [true; 4];
pub static mut AE_CALLS: usize = 0;
pub static mut SACK_VALUE: Option<crate::raw::selective_ack::SelectiveAck> = None;
impl UserRx {
    pub fn stub_add_remove(&mut self, _cx: &mut std::task::Context<'_>, msg: UtpMessage, offset: usize) -> crate::Result<AssemblerAddRemoveResult> {
        unsafe {
            AR_CALLS += 1;
            AR_OFFSET = offset;
            AR_IS_FIN = msg.header.htype == Type::ST_FIN;
            AR_PLEN = msg.data.len();
            match AR_RESULT {
                0 => {
                    std::mem::forget(msg);
                    Ok(AssemblerAddRemoveResult::Consumed { sequence_numbers: AR_SEQ, bytes: AR_BYTES })
                }
                1 => {
                    std::mem::forget(msg);
                    Ok(AssemblerAddRemoveResult::AlreadyPresent)
                }
                _ => Ok(AssemblerAddRemoveResult::Unavailable(msg)),
            }
        }
    }
    pub fn stub_assembler_empty(&self) -> bool {
        unsafe {
            let i = if AE_CALLS < 4 { AE_CALLS } else { 3 };
            AE_CALLS += 1;
            AE_SCRIPT[i]
        }
    }
    pub fn stub_selective_ack(&self) -> Option<crate::raw::selective_ack::SelectiveAck> {
        unsafe { SACK_VALUE }
    }
}

#[cfg(not(test))]
pub struct RtGuard;
#[cfg(not(test))]
pub fn enter_runtime() -> RtGuard {
    RtGuard
}
#[cfg(not(test))]
fn make_sleep() -> Pin<Box<Sleep>> {
    // never touched: Timers::arm_in is stubbed in symbolic mode
    Box::pin(unsafe { std::mem::MaybeUninit::<Sleep>::zeroed().assume_init() })
}
#[cfg(test)]
pub struct RtGuard(tokio::runtime::Runtime);
#[cfg(test)]
pub fn enter_runtime() -> RtGuard {
    let rt = tokio::runtime::Builder::new_current_thread().enable_time().build().unwrap();
    // keep the context entered for the rest of the (single-threaded) replay
    std::mem::forget(rt.enter());
    RtGuard(rt)
}
#[cfg(test)]
fn make_sleep() -> Pin<Box<Sleep>> {
    Box::pin(tokio::time::sleep(Duration::from_secs(0)))
}

/// Feed one incoming message to the socket's queue.
pub fn inbox_push(t: &VsTest, msg: UtpMessage) {
    #[cfg(not(test))]
    unsafe {
        let _ = t;
        *std::ptr::addr_of_mut!(INBOX) = Some(msg);
    }
    #[cfg(test)]
    {
        let _ = t.tx.send(msg);
    }
}

pub struct VsConfig {
    pub link_mtu: u16,
    pub rx_buf: usize,
    pub nagle: bool,
    /// ring: (capacity, read index, fill)
    pub ring: (usize, usize, usize),
    pub tx_max: usize,
}
impl Default for VsConfig {
    fn default() -> Self {
        // 64-byte link MTU => 16-byte segments (no probing range); 48-byte receive buffer => 3 reassembly slots
        VsConfig { link_mtu: 64, rx_buf: 48, nagle: true, ring: (8, 0, 0), tx_max: 8 }
    }
}

pub struct VsTest {
    pub vsock: VirtualSocket<KTransport, KEnv>,
    pub read_half: UtpStreamReadHalf,
    pub write_half: UtpStreamWriteHalf,
    pub tx: UnboundedSender<UtpMessage>,
    pub ring_model: [u8; 8],
    pub rt: RtGuard,
}

pub const OUR_SEQ: u16 = 65534; // next sequence number we send: the TX side straddles the wrap
pub const PEER_LAST: u16 = 65535; // last peer sequence number consumed: next in-order is 0
pub const CONN_ID_SEND: u16 = 8;

/// Established-looking socket with quiet timers, nothing in flight, window 1024, controller window
/// 1024; the harness then overwrites whatever its obligation needs.
pub fn make_vsock(state: VirtualSocketState, cfg: VsConfig) -> VsTest {
    let rt = enter_runtime();
    set_now_us(T0_US);
    unsafe {
        CC_WINDOW = 1024;
        CC_SSTHRESH = 1024;
    }
    let opts = verif_opts(cfg.link_mtu, cfg.rx_buf, cfg.ring.0, cfg.tx_max, cfg.nagle);
    let parts = verif_make_socket(KTransport, KEnv, opts);
    let socket = parts.socket;
    std::mem::forget(parts.control_rx);
    std::mem::forget(parts.accept_rx);
    let (tx, rx) = unbounded_channel::<UtpMessage>();
    let remote = SocketAddr::new(std::net::IpAddr::V4(Ipv4Addr::LOCALHOST), 2);
    let ss = SegmentSizes::new(SegmentSizesConfig { is_ipv4: true, link_mtu: cfg.link_mtu, ..Default::default() });
    unsafe { CC_MSS = ss.mss() as usize }
    let (user_rx, read_half) = UserRx::build(socket.opts().vsock_rx_bufsize, NonZeroUsize::new(ss.mss() as usize).unwrap());
    assert!(cfg.ring.0 == 8, "harness: ring model is 8 bytes");
    let (user_tx, write_half, ring_model) = make_tx_at::<8>(cfg.ring.1, cfg.ring.2);
    let now = KEnv.now();
    let mut rtte = RttEstimator::default();
    rtte.sample(Duration::from_millis(100));
    let vsock = VirtualSocket {
        state,
        segment_sizes: ss,
        env: KEnv,
        socket_opts: socket.opts().clone(),
        congestion_controller: Box::new(MockCc),
        socket_created: socket.created,
        remote,
        conn_id_send: SeqNr(CONN_ID_SEND),
        timers: Timers {
            retransmit: Timer::default(),
            sleep: make_sleep(),
            ack_delay_timer: Timer::default(),
            recovery_pipe_expiry: Timer::default(),
            syn_ack_resend: Timer::default(),
            remote_inactivity_timer: Timer::default(),
        },
        last_remote_timestamp: 0,
        last_remote_window: 1024,
        seq_nr: SeqNr(OUR_SEQ),
        last_sent_seq_nr: SeqNr(OUR_SEQ.wrapping_sub(1)),
        last_consumed_remote_seq_nr: SeqNr(PEER_LAST),
        last_sent_ack_nr: SeqNr(PEER_LAST),
        rto_retransmissions: 0,
        consumed_but_unacked_bytes: 0,
        rx,
        user_tx_segments: Segments::new(SeqNr(OUR_SEQ)),
        user_tx,
        rtte,
        // `..zeroed()`: fields a later version of the crate adds to this scratch struct start out as zero
        // instead of breaking the harness build (the zeroed base's own Vec is an empty, never-freed Vec).
        #[allow(clippy::needless_update)]
        this_poll: ThisPoll { now, tmp_buf: vec![0u8; (ss.max_ss() + UTP_HEADER) as usize], transport_pending: false, restart: false, unsegmented_data: 0,
            ..unsafe { std::mem::MaybeUninit::<ThisPoll>::zeroed().assume_init() } },
        parent_span: None,
        drop_guard: DropGuardSendBeforeDeath::new(ControlRequest::Shutdown((remote, SeqNr(CONN_ID_SEND + 1))), &socket.control_requests),
        user_rx,
        last_sent_window: cfg.rx_buf as u32,
        socket,
        recovery: Recovery::default(),
    };
    VsTest { vsock, read_half, write_half, tx, ring_model, rt }
}

pub fn finish(t: VsTest) {
    // never run drop glue (io::Error / CancellationToken / Arc<UtpSocket> trees)
    std::mem::forget(t);
}

pub fn cx_waker() -> std::task::Waker {
    waker(W_DISP)
}

/// Tier-C harness wrapper: tier-B stubs + dispatcher timer/inbox stubs.
#[macro_export]
macro_rules! verif_tier_c {
    ($(#[$m:meta])* fn $name:ident() $body:block) => {
        #[kani::proof]
        #[kani::stub(alloc::fmt::format, crate::verif_lib__support::stub_format)]
        #[kani::stub(std::time::SystemTime::now, crate::verif_lib__support::stub_systemtime_now)]
        #[kani::stub(parking_lot::raw_rwlock::RawRwLock::lock_exclusive_slow, crate::verif_lib__support::stub_rw_lock_excl_slow)]
        #[kani::stub(parking_lot::raw_rwlock::RawRwLock::unlock_exclusive_slow, crate::verif_lib__support::stub_rw_unlock_excl_slow)]
        #[kani::stub(parking_lot::raw_rwlock::RawRwLock::lock_shared_slow, crate::verif_lib__support::stub_rw_lock_shared_slow)]
        #[kani::stub(parking_lot::raw_rwlock::RawRwLock::unlock_shared_slow, crate::verif_lib__support::stub_rw_unlock_shared_slow)]
        #[kani::stub(parking_lot::raw_mutex::RawMutex::lock_slow, crate::verif_lib__support::stub_mx_lock_slow)]
        #[kani::stub(parking_lot::raw_mutex::RawMutex::unlock_slow, crate::verif_lib__support::stub_mx_unlock_slow)]
        #[kani::stub(std::task::Waker::wake, crate::verif_lib__support::stub_waker_wake)]
        #[kani::stub(std::task::Waker::wake_by_ref, crate::verif_lib__support::stub_waker_wake_by_ref)]
        #[kani::stub(<std::task::Waker as std::ops::Drop>::drop, crate::verif_lib__support::stub_waker_drop)]
        #[kani::stub(crate::stream_dispatch::Timers::arm_in, crate::stream_dispatch::Timers::stub_arm_in)]
        #[kani::stub(tokio::sync::mpsc::UnboundedReceiver::poll_recv, crate::stream_dispatch::verif_stream_dispatch__vs::stub_poll_recv)]
        $(#[$m])*
        fn $name() $body
    };
}
