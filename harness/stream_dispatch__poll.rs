//! C08.1 / C03.F5 / C02.T — one whole `poll()` of the connection task from terminal / timed-out /
//! idle situations (tier C, heaviest harnesses).
// @requires stream_dispatch__vs.rs
// @requires stream_rx__rx.rs
#![allow(unused_imports, dead_code, static_mut_refs)]
use super::verif_stream_dispatch__vs::*;
use super::*;
use std::task::Context;

fn reader_closed(t: &VsTest) -> bool {
    crate::stream_rx::verif_stream_rx__rx::verif_rx_vsock_closed(&t.vsock.user_rx)
}
fn writer_closed(t: &VsTest) -> bool {
    crate::stream_tx::verif_stream_tx__tx::verif_vsock_closed(&t.vsock.user_tx)
}

// (disabled: did not finish within 40 min on this machine - tier-C gate, DESIGN 00.5)
// @verif-disabled id=VS.poll.closed props=C08,C03,C17 tier=quick timeout=2400 mem=24
// @functions VirtualSocket::poll (whole loop), VirtualSocket::just_before_death, VirtualSocket::state_is_closed
// @bounds connection state Closed (close handshake finished) or LastAck with wait_for_last_ack = false; nothing buffered, nothing in flight, no incoming packet; all timers idle
// @asserts the task's future completes in THIS poll with Ok; both stream halves are told the connection is gone; NO datagram is emitted
// @stubs Heap::new (allocation-size concretisation)
// @unwindset make_tx_at=9,__vs::record=37
crate::verif_tier_c! {
#[kani::stub(ringbuf::storage::Heap::new, crate::stream_tx::verif_stream_tx__tx::stub_heap_new)]
#[kani::unwind(6)]
fn vs_poll_closed_state_terminates() {
    let lastack: bool = kani::any();
    let st = if lastack { VirtualSocketState::LastAck { our_fin: SeqNr(OUR_SEQ.wrapping_sub(1)), remote_fin: SeqNr(PEER_LAST) } } else { VirtualSocketState::Closed };
    let mut t = make_vsock(st, VsConfig { link_mtu: 52, rx_buf: 12, nagle: true, ring: (8, 0, 0), tx_max: 8 });
    if lastack {
        t.vsock.socket_opts.wait_for_last_ack = false;
        t.vsock.last_sent_seq_nr = SeqNr(OUR_SEQ.wrapping_sub(1));
    }
    let w = cx_waker();
    let mut cx = Context::from_waker(&w);
    let r = t.vsock.poll(&mut cx);
    let done_ok = matches!(&r, Poll::Ready(Ok(())));
    std::mem::forget(r);
    assert!(done_ok, "C08: once the close handshake is finished the connection task ends in the same poll");
    assert!(reader_closed(&t) && writer_closed(&t), "C08: both stream halves learn that the connection is gone");
    assert!(sent_n() == 0, "C08: a finished connection emits no further datagram");
    finish(t);
    kani::cover!(true, "end of harness reachable (assumptions satisfiable, no unconditional failure)");
}
}

// (disabled: did not finish within 40 min on this machine - tier-C gate, DESIGN 00.5)
// @verif-disabled id=VS.poll.inactive props=C08,C03 tier=quick timeout=2400 mem=24
// @functions VirtualSocket::poll, VirtualSocket::just_before_death, Timer::expired
// @bounds Established or FinWait2; remote-inactivity timer expired (anywhere up to 1 s ago); nothing buffered, nothing in flight, no incoming packet
// @asserts the future completes with the RemoteInactiveForTooLong error in this poll; reader and writer are told (an error is queued for the reader); from Established one FIN is emitted as a courtesy, from FinWait2 nothing
// @stubs Heap::new (allocation-size concretisation)
// @unwindset make_tx_at=9,__vs::record=37
crate::verif_tier_c! {
#[kani::stub(ringbuf::storage::Heap::new, crate::stream_tx::verif_stream_tx__tx::stub_heap_new)]
#[kani::unwind(6)]
fn vs_poll_inactivity_timeout_fails_connection() {
    let fw2: bool = kani::any();
    let st = if fw2 { VirtualSocketState::FinWait2 } else { VirtualSocketState::Established };
    let mut t = make_vsock(st, VsConfig { link_mtu: 52, rx_buf: 12, nagle: true, ring: (8, 0, 0), tx_max: 8 });
    let ago_ms: u16 = kani::any();
    kani::assume(ago_ms <= 1000);
    t.vsock.timers.remote_inactivity_timer = Timer::Armed { expires_at: now_at(T0_US - ago_ms as u64 * 1000) };
    let w = cx_waker();
    let mut cx = Context::from_waker(&w);
    let r = t.vsock.poll(&mut cx);
    let inactive = matches!(&r, Poll::Ready(Err(Error::RemoteInactiveForTooLong)));
    std::mem::forget(r);
    assert!(inactive, "C03: a silent peer makes the connection fail with an error within the inactivity bound, instead of hanging");
    assert!(reader_closed(&t) && writer_closed(&t), "C03: pending and later reads/writes resolve with an error");
    if fw2 {
        assert!(sent_n() == 0, "C08: a connection that already sent its FIN dies silently");
    } else {
        assert!(sent_n() == 1, "C08: at most one FIN is emitted before the task ends");
        let (h, _) = sent_header(0).unwrap();
        assert!(h.htype == Type::ST_FIN && h.seq_nr == SeqNr(OUR_SEQ), "C17: the farewell FIN carries the next sequence number");
    }
    finish(t);
    kani::cover!(true, "end of harness reachable (assumptions satisfiable, no unconditional failure)");
}
}

// ---- death path (method level) ---------------------------------------------------------------------

// @verif id=VS.death props=C08,C03,C17,C09 tier=quick timeout=1200 mem=16
// @functions VirtualSocket::just_before_death, UserRx::enqueue_error, UserRx::mark_vsock_closed, UserTx::mark_vsock_closed, VirtualSocket::send_control_packet
// @bounds states Established, FinWait1, FinWait2, LastAck, Closed; death with an error (retransmission limit) or without (clean close); a blocked reader and a blocked writer registered; transport ready
// @asserts both stream halves are told the connection is gone and both blocked parties are woken; with an error the error is queued for the reader (so reads fail instead of hanging or reporting a clean end); AT MOST ONE datagram is emitted: a FIN with the next sequence number, and only when dying with an error before any own FIN was sent; a clean close emits nothing
// @unwindset make_tx_at=9,__vs::record=37
crate::verif_tier_c! {
#[kani::unwind(6)]
fn vs_just_before_death() {
    let k: u8 = kani::any();
    kani::assume(k < 5);
    let f = OUR_SEQ.wrapping_sub(1);
    let st = match k {
        0 => VirtualSocketState::Established,
        1 => VirtualSocketState::FinWait1 { our_fin: SeqNr(f) },
        2 => VirtualSocketState::FinWait2,
        3 => VirtualSocketState::LastAck { our_fin: SeqNr(f), remote_fin: SeqNr(PEER_LAST) },
        _ => VirtualSocketState::Closed,
    };
    let mut t = make_vsock(st, VsConfig { link_mtu: 52, rx_buf: 12, nagle: true, ring: (8, 0, 0), tx_max: 8 });
    t.vsock.user_tx.locked.write().writer_waker = Some(crate::verif_lib__support::waker(W_WRITER));
    crate::stream_rx::verif_stream_rx__rx::verif_set_reader_waker(&t.vsock.user_rx, crate::verif_lib__support::waker(W_READER));
    let with_error: bool = kani::any();
    let err = Error::MaxRetransmissionsReached;
    let w = cx_waker();
    let mut cx = Context::from_waker(&w);
    t.vsock.just_before_death(&mut cx, if with_error { Some(&err) } else { None });
    std::mem::forget(err);
    assert!(reader_closed(&t) && writer_closed(&t), "C08: when the connection ends both stream halves are told");
    assert!(crate::verif_lib__support::wakes(W_WRITER) == 1 && crate::verif_lib__support::wakes(W_READER) >= 1, "C03: pending reads and writes are woken so that they resolve instead of hanging");
    let queued = crate::stream_rx::verif_stream_rx__rx::verif_queue_items(&t.vsock.user_rx);
    assert!(queued == if with_error { 1 } else { 0 }, "C03: an aborted connection queues an error for the reader; a clean close does not");
    let fin_due = with_error && k == 0;
    kani::cover!(fin_due, "farewell FIN");
    if fin_due {
        assert!(sent_n() == 1, "C08: at most one datagram is emitted while dying");
        let (h, n) = sent_header(0).unwrap();
        assert!(h.htype == Type::ST_FIN && h.seq_nr == SeqNr(OUR_SEQ) && n == sent_total(0), "C17: the farewell FIN carries the next sequence number");
        assert!(t.vsock.seq_nr == SeqNr(OUR_SEQ.wrapping_add(1)), "C17: the FIN consumes a sequence number");
    } else {
        assert!(sent_n() == 0, "C08: a connection that already sent its FIN, or closes cleanly, dies silently");
    }
    kani::cover!(true, "end of harness reachable (assumptions satisfiable, no unconditional failure)");
    finish(t);
}
}

// @verif id=VS.death.unflushed props=C03,C04,C08 tier=quick timeout=1200 mem=16
// @functions VirtualSocket::just_before_death, UserRx (flush on death), OutOfOrderQueue::send_front_if_fits
// @bounds clean close (no error) or death with an error; the reader is alive but slow: its queue holds 4 of 6 bytes while two in-order, already ACKNOWLEDGED messages (1 + 2 = 3 bytes, more than the 2 bytes of room) still wait in the reassembly queue (data that arrived beyond the advertised window, e.g. a zero-window probe)
// @asserts before the connection task ends, everything already in order (acknowledged to the peer) is handed to the read half: the reassembly queue's in-order prefix is empty and the reader's queue holds the two extra messages (in front of the error, if any) - acknowledged data is never discarded while a reader can still take it
// @unwindset make_tx_at=9,__vs::record=37
crate::verif_tier_c! {
#[kani::unwind(8)]
fn vs_death_hands_over_acknowledged_data() {
    use crate::stream_rx::verif_stream_rx__rx::{make as make_rx, payload_item};
    let mut t = make_vsock(VirtualSocketState::Closed, VsConfig { link_mtu: 52, rx_buf: 12, nagle: true, ring: (8, 0, 0), tx_max: 8 });
    let (urx, rh, _g) = make_rx::<1>(0b011, usize::MAX, [payload_item(4)]);
    let old = std::mem::replace(&mut t.vsock.user_rx, urx);
    std::mem::forget(old);
    let with_error: bool = kani::any();
    let err = Error::MaxRetransmissionsReached;
    let w = cx_waker();
    let mut cx = Context::from_waker(&w);
    t.vsock.just_before_death(&mut cx, if with_error { Some(&err) } else { None });
    std::mem::forget(err);
    let queued = crate::stream_rx::verif_stream_rx__rx::verif_queue_items(&t.vsock.user_rx);
    let (ooq_len, ooq_ff, _b) = crate::stream_rx::verif_stream_rx__rx::verif_ooq_scalars(&t.vsock.user_rx);
    assert!(ooq_ff == 0 && ooq_len == 0, "C03: in-order data already acknowledged to the peer is handed to the reader before the connection task ends");
    assert!(queued == 3 + if with_error { 1 } else { 0 }, "C04: acknowledged data is never discarded while the reader can still take it");
    kani::cover!(true, "end of harness reachable (assumptions satisfiable, no unconditional failure)");
    std::mem::forget(rh);
    finish(t);
}
}
