//! User-side message queue (`MsgQueue`): one operation from a pre-state written into the fields.
//! Byte identity and FIFO order of what the reader will see (C01.R2), capacity bound (C04.A2, C10.6).
// @requires stream_rx@msgq__q.rs
#![allow(unused_imports, dead_code)]
use super::*;

fn payload2(b: [u8; 2]) -> UserRxMessage {
    UserRxMessage::Payload(vec![b[0], b[1]])
}

fn is_payload(m: &UserRxMessage, want: &[u8]) -> bool {
    match m {
        UserRxMessage::Payload(p) => {
            let mut ok = p.len() == want.len();
            let mut i = 0;
            while i < want.len() {
                if ok {
                    ok &= p[i] == want[i];
                }
                i += 1;
            }
            ok
        }
        _ => false,
    }
}

// @verif id=MSGQ.push props=C01,C04,C10 tier=quick
// @functions MsgQueue::try_push_back, MsgQueue::window
// @bounds queue of capacity 6 holding one 2-byte payload (symbolic bytes, spare VecDeque capacity); pushing a payload of 1..=5 symbolic-content bytes (length symbolic) or EOF
// @asserts accepted <=> it fits the remaining capacity (never exceeds the configured size); on acceptance it is appended BEHIND the existing item, byte-identical, len_bytes grows by its length; on refusal the very message is handed back and nothing changes
#[kani::proof]
#[kani::unwind(8)]
fn msgq_try_push_back() {
    let a: [u8; 2] = kani::any();
    let mut v = Vec::with_capacity(4);
    v.push(payload2(a));
    let mut q = MsgQueue { queue: VecDeque::from(v), len_bytes: 2, capacity: 6 };
    let nb: [u8; 5] = kani::any();
    let n: usize = kani::any();
    kani::assume(n >= 1 && n <= 5);
    let eof: bool = kani::any();
    let msg = if eof { OoqMessage::Eof } else { OoqMessage::Payload(nb[..n].to_vec()) };
    let w0 = q.window();
    assert!(w0 == 4, "C04: window is capacity minus queued bytes");
    let r = q.try_push_back(msg);
    kani::cover!(r.is_ok() && !eof && n == 4, "exact fit accepted");
    kani::cover!(r.is_err(), "over-capacity push refused");
    match r {
        Ok(()) => {
            let len = if eof { 0 } else { n };
            assert!(len <= w0, "C04: a message is accepted only if it fits the configured buffer");
            assert!(q.len_bytes == 2 + len && q.len_bytes <= q.capacity, "C10: queued bytes never exceed the capacity");
            assert!(q.queue.len() == 2, "C01: appended once");
            assert!(is_payload(&q.queue[0], &a), "C01: existing data untouched and still first");
            if eof {
                assert!(matches!(q.queue[1], UserRxMessage::Eof), "C03: EOF queued behind the data");
            } else {
                assert!(is_payload(&q.queue[1], &nb[..n]), "C01: pushed payload is appended byte-identical");
            }
        }
        Err(m) => {
            assert!(!eof && n > w0, "C04: refusal only when the message does not fit");
            assert!(q.len_bytes == 2 && q.queue.len() == 1, "C01: a refused push changes nothing");
            let same = match &m {
                OoqMessage::Payload(p) => p.len() == n && p[0] == nb[0],
                _ => false,
            };
            assert!(same, "C01: the refused message is handed back intact");
            std::mem::forget(m);
        }
    }
    std::mem::forget(q);
}

// @verif id=MSGQ.pop props=C01,C04 tier=quick
// @functions MsgQueue::pop_front, MsgQueue::push_back, MsgQueue::window
// @bounds queue [payload(2), payload(2), EOF] with symbolic bytes; one pop; then push_back of an error marker
// @asserts pop returns the OLDEST item byte-identical and reduces len_bytes by its length; the rest keeps its order; push_back appends at the tail
#[kani::proof]
#[kani::unwind(8)]
fn msgq_pop_front_fifo() {
    let a: [u8; 2] = kani::any();
    let b: [u8; 2] = kani::any();
    let mut v = Vec::with_capacity(6);
    v.push(payload2(a));
    v.push(payload2(b));
    v.push(UserRxMessage::Eof);
    let mut q = MsgQueue { queue: VecDeque::from(v), len_bytes: 4, capacity: 6 };
    let m = q.pop_front();
    match &m {
        Some(x) => assert!(is_payload(x, &a), "C01: the reader receives the oldest queued payload, unaltered"),
        None => assert!(false, "C01: non-empty queue pops"),
    }
    std::mem::forget(m);
    assert!(q.len_bytes == 2 && q.window() == 4, "C04: popped bytes are returned to the window");
    assert!(q.queue.len() == 2 && is_payload(&q.queue[0], &b) && matches!(q.queue[1], UserRxMessage::Eof),
        "C01: remaining items keep their order (EOF stays last)");
    q.push_back(UserRxMessage::Error(String::new()));
    assert!(q.queue.len() == 3 && matches!(q.queue[2], UserRxMessage::Error(_)) && q.len_bytes == 2,
        "C03: an error marker is appended behind everything already queued");
    std::mem::forget(q);
    kani::cover!(true, "end of harness reachable (assumptions satisfiable, no unconditional failure)");
}

// @verif id=MSGQ.empty props=C01 tier=quick
// @functions MsgQueue::new, MsgQueue::pop_front, MsgQueue::window
// @bounds the constructor for any capacity: usize; pop on empty
// @asserts empty queue, window == capacity, pop gives None
#[kani::proof]
#[kani::unwind(4)]
fn msgq_new_and_empty_pop() {
    let cap: usize = kani::any();
    let mut q = MsgQueue::new(cap);
    assert!(q.window() == cap && q.len_bytes == 0, "C04: fresh queue advertises its whole capacity");
    let m = q.pop_front();
    assert!(m.is_none(), "C01: nothing to read from an empty queue");
    std::mem::forget(q);
    kani::cover!(true, "end of harness reachable (assumptions satisfiable, no unconditional failure)");
}
