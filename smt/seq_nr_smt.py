#!/usr/bin/env python3
"""Secondary engine for C09 (thorough tier): MIR -> SMT-LIB2 for `utils::seq_nr_offset`.

  1. dumps the MIR of /repo's current working tree with the nightly toolchain
     (`cargo +nightly rustc -- -Zunpretty=mir`, overflow checks on),
  2. symbolically executes the (loop-free) MIR body of `utils::seq_nr_offset` over bit-vector terms:
     every path from bb0 to `return`, panicking `assert` terminators become failure conditions,
  3. reads the crate's `constants::WRAP_TOLERANCE` from the same MIR dump,
  4. asks z3 AND cvc5 (one incremental process each, `(set-logic ALL)`):
        Q1  exists new, old : |d| <= 1024  and  f(new, old, WRAP_TOLERANCE) != sext(d)      (d = signed16(new-old))
        Q2  exists new, old, tol : some overflow/negation assert of the body fails         (panic-freedom)
        Q3  shift invariance: exists s, k, i, j (|i|,|j|,|i-j| <= 1024): f(s+i, s+j) != f(s+k+i, s+k+j)
     `unsat` for all = property holds for ALL 16-bit inputs; `sat` = counterexample (model printed);
     any `(error` line or disagreement between the solvers = inconclusive,
  5. validates the translator on every run against the repo's own test vectors
     (`utils::tests::test_seq_nr_offset`, parsed from the source): the encoding must return the expected value.

Prints one JSON object; exit 0 = holds, 1 = counterexample (with concrete values), 2 = inconclusive / not encoded.
"""
import json
import os
import re
import shutil
import subprocess
import sys
import tempfile
import time

REPO = os.environ.get("VERIF_REPO", "/repo")
ORACLE_TOL = 1024  # fixed by the property, not read from the code


def dump_mir():
    d = tempfile.mkdtemp(prefix="verif-mir-", dir=os.environ.get("VERIF_SCRATCH", "/var/tmp"))
    try:
        subprocess.check_call(["rsync", "-a", "--exclude", "/target", "--exclude", "/.git", "--exclude", "/examples", REPO + "/", d + "/"])
        env = dict(os.environ, CARGO_NET_OFFLINE="true")
        env.pop("RUSTFLAGS", None)
        p = subprocess.run(["cargo", "+nightly", "rustc", "--offline", "--lib", "--", "-Zunpretty=mir", "-C", "debug-assertions=off", "-C", "overflow-checks=on"],
                           cwd=d, env=env, capture_output=True, text=True, timeout=900)
        if p.returncode != 0:
            raise RuntimeError("MIR dump failed: " + p.stderr[-800:])
        return p.stdout
    finally:
        shutil.rmtree(d, ignore_errors=True)


def extract_fn(mir, name):
    m = re.search(r"^fn " + re.escape(name) + r"\(([^)]*)\) -> (\S+) \{\n(.*?)^\}\n", mir, re.S | re.M)
    if not m:
        raise RuntimeError(f"function {name} not found in MIR dump")
    return m.group(1), m.group(2), m.group(3)


WIDTH = {"u16": 16, "isize": 64, "i8": 8, "bool": 1, "u8": 8, "usize": 64}


class Enc:
    """Path-enumerating symbolic executor for the MIR subset used by seq_nr_offset."""

    def __init__(self, params, body):
        self.types = {}
        for p in params.split(","):
            n, t = p.strip().split(": ")
            self.types[n] = t
        for m in re.finditer(r"let (?:mut )?(_\d+): ([^;]+);", body):
            self.types[m.group(1)] = m.group(2).strip()
        self.blocks = {}
        for m in re.finditer(r"^    (bb\d+): \{\n(.*?)^    \}\n", body, re.S | re.M):
            self.blocks[m.group(1)] = [l.strip() for l in m.group(2).strip().split("\n") if l.strip()]
        self.paths = []     # (cond_terms, return_term)
        self.failures = []  # cond_terms leading to a failing assert

    def operand(self, env, o):
        o = o.strip()
        o = re.sub(r"^(move|copy) ", "", o)
        m = re.match(r"const (-?\d+)_(\w+)$", o)
        if m:
            w = WIDTH[m.group(2)]
            v = int(m.group(1)) % (1 << w)
            return f"(_ bv{v} {w})"
        if o == "const isize::MIN":
            return f"(_ bv{1 << 63} 64)"
        m = re.match(r"\((_\d+)\.(\d): \w+\)$", o)
        if m:
            return env[m.group(1)][int(m.group(2))]
        if o.startswith("&"):
            return env[o[1:]]
        if o in env:
            return env[o]
        raise RuntimeError("operand not understood: " + o)

    def run(self, bb, env, conds):
        for line in self.blocks[bb]:
            line = line.rstrip(";")
            # terminators ---------------------------------------------------------------
            if line == "return":
                self.paths.append((list(conds), env["_0"]))
                return
            if line == "unreachable":
                return
            m = re.match(r"goto -> (bb\d+)$", line)
            if m:
                return self.run(m.group(1), env, conds)
            m = re.match(r"switchInt\((.*?)\) -> \[(.*)\]$", line)
            if m:
                v = self.operand(env, m.group(1))
                w = WIDTH[self.types[re.sub(r"^(move|copy) ", "", m.group(1).strip())]]
                arms = [a.strip() for a in m.group(2).split(",")]
                taken = []
                for a in arms:
                    k, t = a.split(": ")
                    if k == "otherwise":
                        c = [f"(not (= {v} (_ bv{x} {w})))" for x in taken]
                        self.run(t, dict(env), conds + c)
                    else:
                        x = int(k) % (1 << w)
                        taken.append(x)
                        self.run(t, dict(env), conds + [f"(= {v} (_ bv{x} {w}))"])
                return
            m = re.match(r"assert\((!?)(.*?), \".*\) -> \[success: (bb\d+), unwind continue\]$", line)
            if m:
                c = self.operand(env, m.group(2))
                ok = f"(= {c} (_ bv{0 if m.group(1) else 1} 1))"
                self.failures.append(conds + [f"(not {ok})"])
                return self.run(m.group(3), env, conds + [ok])
            m = re.match(r"(_\d+) = (.*?)\((.*)\) -> \[return: (bb\d+), unwind continue\]$", line)
            if m:
                dst, fn, args, nxt = m.groups()
                a = [self.operand(env, x) for x in args.split(", ")]
                if fn.endswith("wrapping_sub"):
                    env[dst] = f"(bvsub {a[0]} {a[1]})"
                elif fn == "<u16 as Ord>::cmp":
                    # Ordering: Less = -1 (255 as i8), Equal = 0, Greater = 1
                    env[dst] = f"(ite (bvult {a[0]} {a[1]}) (_ bv255 8) (ite (= {a[0]} {a[1]}) (_ bv0 8) (_ bv1 8)))"
                else:
                    raise RuntimeError("call not understood: " + fn)
                return self.run(nxt, env, conds)
            # statements ----------------------------------------------------------------
            m = re.match(r"(_\d+) = (.*)$", line)
            if not m:
                raise RuntimeError("statement not understood: " + line)
            dst, rhs = m.groups()
            mm = re.match(r"(Le|Lt|Eq|Ne|Ge|Gt)\((.*), (.*)\)$", rhs)
            if mm:
                x, y = self.operand(env, mm.group(2)), self.operand(env, mm.group(3))
                signed = self.types.get(re.sub(r"^(move|copy) ", "", mm.group(2).strip()), "u16").startswith("i")
                op = {"Le": "bvsle" if signed else "bvule", "Lt": "bvslt" if signed else "bvult", "Ge": "bvsge" if signed else "bvuge",
                      "Gt": "bvsgt" if signed else "bvugt"}.get(mm.group(1))
                if mm.group(1) == "Eq":
                    b = f"(= {x} {y})"
                elif mm.group(1) == "Ne":
                    b = f"(not (= {x} {y}))"
                else:
                    b = f"({op} {x} {y})"
                env[dst] = f"(ite {b} (_ bv1 1) (_ bv0 1))"
                continue
            mm = re.match(r"SubWithOverflow\((.*), (.*)\)$", rhs)
            if mm:
                x, y = self.operand(env, mm.group(1)), self.operand(env, mm.group(2))
                env[dst] = (f"(bvsub {x} {y})", f"(ite (bvult {x} {y}) (_ bv1 1) (_ bv0 1))")
                continue
            mm = re.match(r"discriminant\((_\d+)\)$", rhs)
            if mm:
                env[dst] = env[mm.group(1)]
                continue
            mm = re.match(r"(.*) as (\w+) \(IntToInt\)$", rhs)
            if mm:
                x = self.operand(env, mm.group(1))
                src_t = self.types[re.sub(r"^(move|copy) ", "", mm.group(1).strip())]
                sw, dw = WIDTH[src_t], WIDTH[mm.group(2)]
                if dw > sw:
                    ext = "sign_extend" if src_t.startswith("i") else "zero_extend"
                    env[dst] = f"((_ {ext} {dw - sw}) {x})"
                elif dw == sw:
                    env[dst] = x
                else:
                    env[dst] = f"((_ extract {dw - 1} 0) {x})"
                continue
            mm = re.match(r"Neg\((.*)\)$", rhs)
            if mm:
                env[dst] = f"(bvneg {self.operand(env, mm.group(1))})"
                continue
            env[dst] = self.operand(env, rhs)
        raise RuntimeError("block without terminator: " + bb)

    def width_of_term(self, t):
        m = re.search(r"\(_ bv\d+ (\d+)\)", t)
        return int(m.group(1)) if m else 8

    def function_term(self, args):
        """nested ite over all paths; args: dict param -> term"""
        self.paths, self.failures = [], []
        self.run("bb0", dict(args), [])
        term = "(_ bv0 64)"
        for conds, ret in reversed(self.paths):
            c = "(and true " + " ".join(conds) + ")"
            term = f"(ite {c} {ret} {term})"
        fail = "(or false " + " ".join("(and true " + " ".join(c) + ")" for c in self.failures) + ")"
        return term, fail, len(self.paths)


def ask(solver_cmd, script):
    t0 = time.time()
    p = subprocess.run(solver_cmd, input=script, capture_output=True, text=True, timeout=600)
    out = p.stdout + p.stderr
    return out, time.time() - t0


def main():
    t0 = time.time()
    res = {"engine": "MIR->SMT-LIB2 (QF_BV terms, logic ALL), z3 + cvc5", "function": "utils::seq_nr_offset", "queries": []}
    try:
        mir = dump_mir()
        params, ret, body = extract_fn(mir, "seq_nr_offset")
        m = re.search(r"^const (?:constants::)?WRAP_TOLERANCE: u16 = (?:const (\d+)_u16;|\{[^}]*?_0 = const (\d+)_u16;)", mir, re.S | re.M)
        if not m:
            raise RuntimeError("WRAP_TOLERANCE constant not found in MIR")
        tol_code = int(m.group(1) or m.group(2))
        enc = Enc(params, body)
        res["mir_blocks"] = len(enc.blocks)
        res["wrap_tolerance_in_code"] = tol_code
        # test vectors from the repo's own unit test
        src = open(os.path.join(REPO, "src", "utils.rs")).read()
        vectors = []
        for mm in re.finditer(r"assert_eq!\(\s*seq_nr_offset\(([^)]*)\),\s*(.*?)\s*\);", src, re.S):
            a = [x.strip().replace("u16::MAX", "65535") for x in mm.group(1).split(",")]
            e = mm.group(2).replace("u16::MAX as isize", "65535").replace("\n", " ")
            try:
                vectors.append((int(eval(a[0])), int(eval(a[1])), int(eval(a[2])), int(eval(e))))
            except Exception:
                pass
        res["translator_test_vectors"] = len(vectors)
        if len(vectors) < 5:
            raise RuntimeError("could not parse the repo's seq_nr_offset test vectors")

        def f(new, old, tol):
            return enc.function_term({"_1": new, "_2": old, "_3": tol})

        decl = "(set-logic ALL)\n(declare-const new (_ BitVec 16))\n(declare-const old (_ BitVec 16))\n(declare-const tol (_ BitVec 16))\n" \
               "(declare-const s (_ BitVec 16))\n(declare-const k (_ BitVec 16))\n(declare-const i (_ BitVec 16))\n(declare-const j (_ BitVec 16))\n"
        T = f"(_ bv{tol_code} 16)"
        term, fail, npaths = f("new", "old", T)
        res["paths"] = npaths
        d = "(bvsub new old)"
        within = f"(and (bvsle {d} (_ bv{ORACLE_TOL} 16)) (bvsge {d} (bvneg (_ bv{ORACLE_TOL} 16))))"
        q1 = f"(push)\n(assert {within})\n(assert (not (= {term} ((_ sign_extend 48) {d}))))\n(check-sat)\n(get-value (new old))\n(pop)\n"
        term2, fail2, _ = f("new", "old", "tol")
        q2 = f"(push)\n(assert {fail2})\n(check-sat)\n(get-value (new old tol))\n(pop)\n"
        lim = f"(_ bv{ORACLE_TOL} 16)"
        rng = lambda v: f"(and (bvsle {v} {lim}) (bvsge {v} (bvneg {lim})))"
        a1, _, _ = f("(bvadd s i)", "(bvadd s j)", T)
        a2, _, _ = f("(bvadd (bvadd s k) i)", "(bvadd (bvadd s k) j)", T)
        q3 = f"(push)\n(assert {rng('i')})\n(assert {rng('j')})\n(assert {rng('(bvsub i j)')})\n(assert (not (= {a1} {a2})))\n(check-sat)\n(get-value (s k i j))\n(pop)\n"
        qv = ""
        for (n, o, t, e) in vectors:
            tt, _, _ = f(f"(_ bv{n} 16)", f"(_ bv{o} 16)", f"(_ bv{t} 16)")
            qv += f"(push)\n(assert (not (= {tt} (_ bv{e % (1 << 64)} 64))))\n(check-sat)\n(pop)\n"
        script = decl + q1 + q2 + q3 + qv
        names = ["Q1 offset == modular distance within +-1024 (all 2^32 pairs)", "Q2 no overflow/negation panic (all inputs, any tolerance)",
                 "Q3 shift invariance under relabelling"] + [f"V{n} translator vs repo test vector {v}" for n, v in enumerate(vectors)]
        verdicts = {}
        for sname, cmd in (("z3", ["/usr/bin/z3", "-in"]), ("cvc5", ["cvc5", "--lang", "smt2", "--incremental", "--produce-models"])):
            out, dt = ask(cmd, script)
            if "(error" in out:
                # (get-value) after unsat yields an error line in both solvers: ignore exactly those
                errs = [l for l in out.split("\n") if "(error" in l and "model is not available" not in l and "cannot get value" not in l.lower() and "Cannot get" not in l]
                if errs:
                    raise RuntimeError(f"{sname} reported an error: {errs[0][:200]}")
            sats = re.findall(r"^(sat|unsat|unknown)$", out, re.M)
            if len(sats) != len(names):
                raise RuntimeError(f"{sname}: expected {len(names)} answers, got {len(sats)}: {out[-400:]}")
            verdicts[sname] = sats
            res.setdefault("solver_time_s", {})[sname] = round(dt, 2)
            res.setdefault("raw_models", {})[sname] = [l for l in out.split("\n") if l.startswith("((")][:6]
        if verdicts["z3"] != verdicts["cvc5"]:
            raise RuntimeError("z3 and cvc5 disagree: %s vs %s" % (verdicts["z3"], verdicts["cvc5"]))
        bad_translator = [names[i] for i in range(3, len(names)) if verdicts["z3"][i] != "unsat"]
        if bad_translator:
            raise RuntimeError("translator validation failed on repo test vectors: " + "; ".join(bad_translator[:3]))
        for i, nme in enumerate(names[:3]):
            res["queries"].append({"query": nme, "z3": verdicts["z3"][i], "cvc5": verdicts["cvc5"][i]})
        res["wall_s"] = round(time.time() - t0, 1)
        viol = [q for q in res["queries"] if q["z3"] == "sat"]
        unk = [q for q in res["queries"] if q["z3"] == "unknown"]
        res["status"] = "violation" if viol else ("inconclusive" if unk else "holds")
        print(json.dumps(res))
        return 1 if viol else (2 if unk else 0)
    except Exception as e:  # not encoded / tool failure: never a pass
        res["status"] = "inconclusive"
        res["error"] = str(e)[:600]
        res["wall_s"] = round(time.time() - t0, 1)
        print(json.dumps(res))
        return 2


if __name__ == "__main__":
    sys.exit(main())
